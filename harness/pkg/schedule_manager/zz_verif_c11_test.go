package schedulemanager

// C11 part a — crontabs are reference-counted, registering never duplicates firings.
// Every sequence of Add/Remove of (crontab, id) pairs up to a depth is applied to the real
// scheduleManager with the real cron library (never started: a firing is injected by
// running the registered job). After every step: Entries = crontabs with >= 1 id, cron holds
// exactly one job per such crontab, and firing every job yields exactly one message per live
// crontab and none for others.

import (
	"context"
	"fmt"
	"sort"
	"strings"
	"testing"

	"github.com/deckhouse/deckhouse/pkg/log"

	smtypes "github.com/flant/shell-operator/pkg/schedule_manager/types"
	"github.com/flant/shell-operator/pkg/zzverif/vres"
)

type c11op struct {
	add     bool
	crontab string
	id      string
}

func (o c11op) String() string {
	k := "Remove"
	if o.add {
		k = "Add"
	}
	return fmt.Sprintf("%s(%s,%s)", k, c11short(o.crontab), o.id)
}

func c11short(c string) string {
	if c == "* * * * *" {
		return "X"
	}
	return "Y"
}

func c11check(sm *scheduleManager, ref map[string]map[string]bool) string {
	live := []string{}
	for c, ids := range ref {
		if len(ids) > 0 {
			live = append(live, c)
		}
	}
	sort.Strings(live)
	var got []string
	for c, e := range sm.Entries {
		got = append(got, c)
		var ids, want []string
		for id := range e.Ids {
			ids = append(ids, id)
		}
		for id := range ref[c] {
			want = append(want, id)
		}
		sort.Strings(ids)
		sort.Strings(want)
		if strings.Join(ids, ",") != strings.Join(want, ",") {
			return fmt.Sprintf("ids of %q are %v, want %v", c, ids, want)
		}
	}
	sort.Strings(got)
	if strings.Join(got, "|") != strings.Join(live, "|") {
		return fmt.Sprintf("registered crontabs %v, want %v", got, live)
	}
	entries := sm.cron.Entries()
	if len(entries) != len(live) {
		return fmt.Sprintf("cron holds %d jobs, %d crontabs are live (%v)", len(entries), len(live), live)
	}
	// inject one firing of each job
	var fired []string
	for _, e := range entries {
		e.Job.Run()
		select {
		case c := <-sm.ScheduleCh:
			fired = append(fired, c)
		default:
			return "a cron job fired without producing a message"
		}
		select {
		case c := <-sm.ScheduleCh:
			return "a single firing produced a second message " + c
		default:
		}
	}
	sort.Strings(fired)
	if strings.Join(fired, "|") != strings.Join(live, "|") {
		return fmt.Sprintf("one firing of every job produced %v, want exactly one per live crontab %v", fired, live)
	}
	return ""
}

func c11run(ops []c11op) (sig, what, state string) {
	sm := NewScheduleManager(context.Background(), log.NewNop())
	ref := map[string]map[string]bool{}
	defer func() {
		if r := recover(); r != nil {
			sig, what = "C11a panic", fmt.Sprint(r)
		}
	}()
	for i, o := range ops {
		e := smtypes.ScheduleEntry{Crontab: o.crontab, Id: o.id}
		if o.add {
			sm.Add(e)
			if ref[o.crontab] == nil {
				ref[o.crontab] = map[string]bool{}
			}
			ref[o.crontab][o.id] = true
		} else {
			sm.Remove(e)
			delete(ref[o.crontab], o.id)
		}
		if m := c11check(sm, ref); m != "" {
			k := "Remove"
			if o.add {
				k = "Add"
			}
			return "C11a refcount after=" + k, fmt.Sprintf("after step %d %s: %s", i, o, m), ""
		}
	}
	var parts []string
	for c, ids := range ref {
		var l []string
		for id := range ids {
			l = append(l, id)
		}
		sort.Strings(l)
		if len(l) > 0 {
			parts = append(parts, c11short(c)+":"+strings.Join(l, "+"))
		}
	}
	sort.Strings(parts)
	return "", "", strings.Join(parts, " ")
}

func TestVerifC11a(t *testing.T) {
	r := vres.New("c11a")
	defer r.Finish()
	var alpha []c11op
	for _, c := range []string{"* * * * *", "*/5 * * * *"} {
		for _, id := range []string{"i1", "i2"} {
			alpha = append(alpha, c11op{true, c, id}, c11op{false, c, id})
		}
	}
	depth := vres.Pick(5, 7)
	r.Bound("alphabet", len(alpha))
	r.Bound("depth", depth)
	var ord int64
	var rec func(prefix []c11op)
	rec = func(prefix []c11op) {
		if len(prefix) > 0 {
			ord++
			if vres.Mine(ord) || r.Replaying() {
				names := make([]string, len(prefix))
				for i, o := range prefix {
					names[i] = o.String()
				}
				key := strings.Join(names, ";")
				if r.Want(key) {
					sig, what, st := c11run(prefix)
					r.Eval(1)
					r.Transition(int64(len(prefix)))
					if sig != "" {
						r.Violation(sig, key, what, nil)
						r.Outcome("V:"+sig, true)
					} else {
						r.State(st)
						removes := false
						for _, o := range prefix {
							if !o.add {
								removes = true
							}
						}
						r.Outcome(st+"|"+fmt.Sprint(len(prefix)), removes)
						r.Sample(map[string]any{"ops": key, "live": st})
					}
				}
			}
		}
		if len(prefix) == depth || r.Expired() {
			return
		}
		for _, o := range alpha {
			rec(append(prefix, o))
		}
	}
	rec(nil)
}
