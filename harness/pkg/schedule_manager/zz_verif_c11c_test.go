package schedulemanager

// C11 part c — several crontabs firing at the same instant. The cron library starts one
// goroutine per due job; the jobs of all crontabs of one instant therefore run side by side and
// share the one schedule channel with the events handler that consumes it. Under the controlled
// scheduler: 2..4 distinct crontabs registered, every job fired at once (one scheduler thread
// per job, as cron does), a consumer that takes one message at a time; all interleavings up to
// the pre-emption bound. Oracle: every live crontab's firing reaches the consumer exactly once.

import (
	"context"
	"fmt"
	"sort"
	"strings"
	"testing"
	"time"

	"github.com/deckhouse/deckhouse/pkg/log"

	smtypes "github.com/flant/shell-operator/pkg/schedule_manager/types"
	"github.com/flant/shell-operator/pkg/zzverif/vres"
	"github.com/flant/shell-operator/pkg/zzverif/vrt"
)

func TestVerifC11c(t *testing.T) {
	r := vres.New("c11c")
	defer r.Finish()
	bound := vres.Pick(2, 6)
	r.Bound("preemption_bound", bound)
	crontabs := []string{"* * * * *", "*/5 * * * *", "0 * * * *", "0 0 * * *"}
	for n := 2; n <= len(crontabs); n++ {
		for _, slow := range []bool{false, true} {
			n, slow := n, slow
			name := fmt.Sprintf("crontabs=%d|slow-consumer=%v", n, slow)
			if !(vres.Mine(int64(n*2)+map[bool]int64{false: 0, true: 1}[slow]) || r.Replaying()) {
				continue
			}
			var got []string
			var jobs int
			body := func(x *vrt.Exec) {
				got, jobs = nil, 0
				sm := NewScheduleManager(context.Background(), log.NewNop())
				for i := 0; i < n; i++ {
					sm.Add(smtypes.ScheduleEntry{Crontab: crontabs[i], Id: fmt.Sprintf("id%d", i)})
				}
				entries := sm.cron.Entries()
				jobs = len(entries)
				done := 0
				for i, e := range entries {
					e := e
					vrt.GoNamed(fmt.Sprintf("job%d", i), func() {
						e.Job.Run()
						done++
					})
				}
				// the events handler: one message at a time, some work in between
				for {
					ok := vrt.WaitFor("message-or-all-jobs-done", time.Second, func() bool { return len(sm.ScheduleCh) > 0 || done == jobs })
					if !ok || len(sm.ScheduleCh) == 0 {
						break
					}
					got = append(got, <-sm.Ch())
					if slow {
						vrt.SleepVirtual(10 * time.Millisecond)
					}
				}
			}
			ex := &vrt.Explorer{Opts: vrt.Options{Bound: bound, MaxSteps: 20000}, Deadline: r.Deadline()}
			ex.Check = func(x *vrt.Exec) {
				key := fmt.Sprintf("%s|%v", name, x.Choices)
				r.Eval(1)
				r.Transition(int64(x.Steps))
				if len(x.Panics) > 0 {
					r.Violation("C11c panic", key, strings.Join(x.Panics, "\n"), nil)
					return
				}
				if x.End != "done" {
					r.Violation("C11c no-progress", key, "execution ended with "+x.End+": "+strings.Join(x.Blocked, "; "), nil)
					return
				}
				sorted := append([]string{}, got...)
				sort.Strings(sorted)
				want := append([]string{}, crontabs[:n]...)
				sort.Strings(want)
				if jobs != n || strings.Join(sorted, "|") != strings.Join(want, "|") {
					r.Violation("C11c firing-lost-or-duplicated", key, fmt.Sprintf("%d crontabs fired at one instant (%d cron jobs): the consumer received %v, want each of %v once", n, jobs, got, want), nil)
					r.Outcome("V", true)
					return
				}
				r.State(name + "|" + strings.Join(got, ","))
				r.Outcome(strings.Join(got, ","), true)
			}
			if r.Replaying() {
				parts := strings.SplitN(r.OnlyCase(), "|[", 2)
				if len(parts) != 2 || parts[0] != name {
					continue
				}
				var choices []int
				for _, f := range strings.Fields(strings.Trim(parts[1], "[]")) {
					var v int
					fmt.Sscan(f, &v)
					choices = append(choices, v)
				}
				opts := ex.Opts
				ex.Check(vrt.Run(&opts, choices, nil, body))
				continue
			}
			ex.Explore(body)
			if ex.Stats.Capped != "" {
				r.Cap(name + ":" + ex.Stats.Capped)
			}
		}
	}
}
