package schedulemanager

// Verification helper (added by build overlay only): lets harnesses in other packages
// inject one firing of every registered cron job without starting cron.

// ZZFireAll runs every registered cron job once and returns the crontabs that were sent
// on the schedule channel, in cron's entry order.
func ZZFireAll(m ScheduleManager) []string {
	sm := m.(*scheduleManager)
	var fired []string
	for _, e := range sm.cron.Entries() {
		e.Job.Run()
		select {
		case c := <-sm.ScheduleCh:
			fired = append(fired, c)
		default:
		}
	}
	return fired
}

// ZZRunJobs runs every registered cron job once, the way cron does when the crontab
// fires: the job sends the crontab on the schedule channel (and blocks while it is full).
// Returns the number of jobs run.
func ZZRunJobs(m ScheduleManager) int {
	sm := m.(*scheduleManager)
	n := 0
	for _, e := range sm.cron.Entries() {
		e.Job.Run()
		n++
	}
	return n
}

// ZZJobs returns the number of registered cron jobs.
func ZZJobs(m ScheduleManager) int {
	return len(m.(*scheduleManager).cron.Entries())
}
