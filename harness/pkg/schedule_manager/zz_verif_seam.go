package schedulemanager

// Verification helper (added by build overlay only): lets harnesses in other packages
// inject one firing of every registered cron job without starting cron.

// ZZFireAll runs every registered cron job once and returns the crontabs that were sent
// on the schedule channel, in cron's entry order.
func ZZFireAll(m ScheduleManager) []string {
	sm := m.(*scheduleManager)
	var fired []string
	for _, e := range sm.cron.Entries() {
		e.Job.Run()
		select {
		case c := <-sm.ScheduleCh:
			fired = append(fired, c)
		default:
		}
	}
	return fired
}
