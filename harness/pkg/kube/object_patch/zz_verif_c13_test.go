package object_patch

// C13 — patch file: validated as a whole, applied in order, JSON and YAML agree.
// Streams of up to 3 operation documents from an alphabet of valid operations (three create
// variants, delete variants, merge / JSON / jq patches, objects inline and as strings, integer,
// float and bool fields, ignoreMissingObject) and single-fault invalid variants are written as
// a JSON stream and as a YAML stream, parsed with the real ParseOperations and executed with
// the real ObjectPatcher against a fake cluster, for two initial cluster states. Reference:
// a tiny interpreter of the documented effect of each operation.

import (
	"context"
	"encoding/json"
	"fmt"
	"reflect"
	"sort"
	"strings"
	"testing"

	"github.com/deckhouse/deckhouse/pkg/log"
	metav1 "k8s.io/apimachinery/pkg/apis/meta/v1"
	"k8s.io/apimachinery/pkg/apis/meta/v1/unstructured"
	"k8s.io/apimachinery/pkg/runtime/schema"

	"github.com/flant/shell-operator/pkg/zzverif/vfx"
	"github.com/flant/shell-operator/pkg/zzverif/vres"
)

func init() { log.SetDefault(log.NewNop()) }

var c13gvr = schema.GroupVersionResource{Version: "v1", Resource: "configmaps"}

type c13op struct {
	id      string
	json    string
	yaml    string
	invalid bool
	// reference effect
	kind   string // create createIfNotExists createOrUpdate delete merge jsonpatch jq
	name   string
	val    float64 // value written to spec.replicas
	ignore bool
	slow   bool
}

func c13obj(name string, replicas string) (string, string) {
	j := fmt.Sprintf(`{"apiVersion":"v1","kind":"ConfigMap","metadata":{"name":"%s","namespace":"default"},"spec":{"replicas":%s,"ratio":0.5,"on":true}}`, name, replicas)
	y := fmt.Sprintf("    apiVersion: v1\n    kind: ConfigMap\n    metadata:\n      name: %s\n      namespace: default\n    spec:\n      replicas: %s\n      ratio: 0.5\n      on: true\n", name, replicas)
	return j, y
}

func c13alphabet() []c13op {
	var ops []c13op
	oj, oy := c13obj("cm", "3")
	ops = append(ops, c13op{id: "Create", kind: "create", name: "cm", val: 3,
		json: `{"operation":"Create","object":` + oj + `}`,
		yaml: "operation: Create\nobject:\n" + oy})
	oj2, _ := c13obj("cm", "4")
	ops = append(ops, c13op{id: "CreateIfNotExists(str)", kind: "createIfNotExists", name: "cm", val: 4,
		json: `{"operation":"CreateIfNotExists","object":` + fmt.Sprintf("%q", oj2) + `}`,
		yaml: "operation: CreateIfNotExists\nobject: |\n  " + oj2 + "\n"})
	oj3, oy3 := c13obj("cm", "5")
	ops = append(ops, c13op{id: "CreateOrUpdate", kind: "createOrUpdate", name: "cm", val: 5,
		json: `{"operation":"CreateOrUpdate","object":` + oj3 + `}`,
		yaml: "operation: CreateOrUpdate\nobject:\n" + oy3})
	oj4, oy4 := c13obj("cm2", "1")
	ops = append(ops, c13op{id: "Create(cm2)", kind: "create", name: "cm2", val: 1,
		json: `{"operation":"Create","object":` + oj4 + `}`,
		yaml: "operation: Create\nobject:\n" + oy4})
	ops = append(ops, c13op{id: "DeleteInBackground", kind: "delete", name: "cm",
		json: `{"operation":"DeleteInBackground","kind":"ConfigMap","namespace":"default","name":"cm"}`,
		yaml: "operation: DeleteInBackground\nkind: ConfigMap\nnamespace: default\nname: cm\n"})
	ops = append(ops, c13op{id: "DeleteNonCascading", kind: "delete", name: "cm",
		json: `{"operation":"DeleteNonCascading","apiVersion":"v1","kind":"ConfigMap","namespace":"default","name":"cm"}`,
		yaml: "operation: DeleteNonCascading\napiVersion: v1\nkind: ConfigMap\nnamespace: default\nname: cm\n"})
	ops = append(ops, c13op{id: "Delete", kind: "delete", name: "cm", slow: true,
		json: `{"operation":"Delete","kind":"ConfigMap","namespace":"default","name":"cm"}`,
		yaml: "operation: Delete\nkind: ConfigMap\nnamespace: default\nname: cm\n"})
	ops = append(ops, c13op{id: "MergePatch", kind: "merge", name: "cm", val: 6,
		json: `{"operation":"MergePatch","kind":"ConfigMap","namespace":"default","name":"cm","mergePatch":{"spec":{"replicas":6}}}`,
		yaml: "operation: MergePatch\nkind: ConfigMap\nnamespace: default\nname: cm\nmergePatch:\n  spec:\n    replicas: 6\n"})
	ops = append(ops, c13op{id: "MergePatch(str,ignoreMissing)", kind: "merge", name: "cm", val: 7, ignore: true,
		json: `{"operation":"MergePatch","kind":"ConfigMap","namespace":"default","name":"cm","ignoreMissingObject":true,"mergePatch":"{\"spec\":{\"replicas\":7}}"}`,
		yaml: "operation: MergePatch\nkind: ConfigMap\nnamespace: default\nname: cm\nignoreMissingObject: true\nmergePatch: |\n  {\"spec\":{\"replicas\":7}}\n"})
	ops = append(ops, c13op{id: "JSONPatch", kind: "jsonpatch", name: "cm", val: 8,
		json: `{"operation":"JSONPatch","kind":"ConfigMap","namespace":"default","name":"cm","jsonPatch":[{"op":"replace","path":"/spec/replicas","value":8}]}`,
		yaml: "operation: JSONPatch\nkind: ConfigMap\nnamespace: default\nname: cm\njsonPatch:\n- op: replace\n  path: /spec/replicas\n  value: 8\n"})
	// a patch of two items, the second one of a kind that has no value (copy / move / remove)
	ops = append(ops, c13op{id: "JSONPatch(replace+copy)", kind: "jsonpatch", name: "cm", val: 10,
		json: `{"operation":"JSONPatch","kind":"ConfigMap","namespace":"default","name":"cm","jsonPatch":[{"op":"replace","path":"/spec/replicas","value":10},{"op":"copy","from":"/spec/replicas","path":"/spec/copy"}]}`,
		yaml: "operation: JSONPatch\nkind: ConfigMap\nnamespace: default\nname: cm\njsonPatch:\n- op: replace\n  path: /spec/replicas\n  value: 10\n- op: copy\n  from: /spec/replicas\n  path: /spec/copy\n"})
	ops = append(ops, c13op{id: "JSONPatch(cm2,ignoreMissing)", kind: "jsonpatch", name: "cm2", val: 2, ignore: true,
		json: `{"operation":"JSONPatch","kind":"ConfigMap","namespace":"default","name":"cm2","ignoreMissingObject":true,"jsonPatch":[{"op":"replace","path":"/spec/replicas","value":2}]}`,
		yaml: "operation: JSONPatch\nkind: ConfigMap\nnamespace: default\nname: cm2\nignoreMissingObject: true\njsonPatch:\n- op: replace\n  path: /spec/replicas\n  value: 2\n"})
	ops = append(ops, c13op{id: "JQPatch", kind: "jq", name: "cm", val: 9,
		json: `{"operation":"JQPatch","kind":"ConfigMap","namespace":"default","name":"cm","jqFilter":".spec.replicas = 9"}`,
		yaml: "operation: JQPatch\nkind: ConfigMap\nnamespace: default\nname: cm\njqFilter: \".spec.replicas = 9\"\n"})
	// single-fault invalid documents (unmistakable faults per docs/src/KUBERNETES.md)
	inv := func(id, j, y string) {
		ops = append(ops, c13op{id: id, json: j, yaml: y, invalid: true})
	}
	// text that is not a document at all: a stray closing bracket between / after documents
	inv("!stray-closing-brace", `}`, "}\n")
	inv("!stray-closing-bracket", `]`, "]\n")
	inv("!no-operation", `{"kind":"ConfigMap","namespace":"default","name":"cm"}`, "kind: ConfigMap\nnamespace: default\nname: cm\n")
	inv("!unknown-operation", `{"operation":"Replace","kind":"ConfigMap","namespace":"default","name":"cm"}`, "operation: Replace\nkind: ConfigMap\nnamespace: default\nname: cm\n")
	inv("!create-without-object", `{"operation":"Create"}`, "operation: Create\n")
	inv("!delete-without-kind", `{"operation":"DeleteInBackground","namespace":"default","name":"cm"}`, "operation: DeleteInBackground\nnamespace: default\nname: cm\n")
	inv("!delete-without-name", `{"operation":"DeleteInBackground","kind":"ConfigMap","namespace":"default"}`, "operation: DeleteInBackground\nkind: ConfigMap\nnamespace: default\n")
	inv("!mergepatch-without-patch", `{"operation":"MergePatch","kind":"ConfigMap","namespace":"default","name":"cm"}`, "operation: MergePatch\nkind: ConfigMap\nnamespace: default\nname: cm\n")
	inv("!jqpatch-without-filter", `{"operation":"JQPatch","kind":"ConfigMap","namespace":"default","name":"cm"}`, "operation: JQPatch\nkind: ConfigMap\nnamespace: default\nname: cm\n")
	return ops
}

// reference interpreter: returns final state and whether an apply-time error is expected
func c13reference(initial bool, ops []c13op) (map[string]float64, bool) {
	st := map[string]float64{}
	// the object that exists beforehand has the value CreateOrUpdate writes (5) and a field no
	// document mentions (spec.legacy, counted as +0.5): replacing the object removes it, patching keeps it
	if initial {
		st["cm"] = 5.5
	}
	anyErr := false
	for _, o := range ops {
		_, exists := st[o.name]
		switch o.kind {
		case "create":
			if exists {
				anyErr = true
			} else {
				st[o.name] = o.val
			}
		case "createIfNotExists":
			if !exists {
				st[o.name] = o.val
			}
		case "createOrUpdate":
			st[o.name] = o.val
		case "delete":
			delete(st, o.name)
		case "merge", "jsonpatch", "jq":
			if !exists {
				if !o.ignore {
					anyErr = true
				}
			} else {
				st[o.name] = o.val + (st[o.name] - float64(int(st[o.name])))
			}
		}
	}
	return st, anyErr
}

func c13state(p *ObjectPatcher, t interface{ Fatal(...any) }) map[string]float64 {
	list, err := p.kubeClient.Dynamic().Resource(c13gvr).Namespace("default").List(context.TODO(), metav1.ListOptions{})
	if err != nil {
		panic(err)
	}
	out := map[string]float64{}
	for _, it := range list.Items {
		v, _, _ := unstructured.NestedFieldNoCopy(it.Object, "spec", "replicas")
		var f float64
		switch n := v.(type) {
		case int64:
			f = float64(n)
		case float64:
			f = n
		case int:
			f = float64(n)
		default:
			f = -1
		}
		if _, has, _ := unstructured.NestedFieldNoCopy(it.Object, "spec", "legacy"); has {
			f += 0.5
		}
		out[it.GetName()] = f
	}
	return out
}

func fmtState(m map[string]float64) string {
	var ks []string
	for k := range m {
		ks = append(ks, k)
	}
	sort.Strings(ks)
	var p []string
	for _, k := range ks {
		p = append(p, fmt.Sprintf("%s=%g", k, m[k]))
	}
	return strings.Join(p, ",")
}

func c13apply(text string, initial bool) (state string, parseErr, applyErr error, panicked string) {
	client := vfx.NewMiniCluster()
	if initial {
		obj := &unstructured.Unstructured{Object: map[string]any{"apiVersion": "v1", "kind": "ConfigMap",
			"metadata": map[string]any{"name": "cm", "namespace": "default"}, "spec": map[string]any{"replicas": int64(5), "ratio": 0.5, "on": true, "legacy": "x"}}}
		if _, err := client.Dynamic().Resource(c13gvr).Namespace("default").Create(context.TODO(), obj, metav1.CreateOptions{}); err != nil {
			panic(err)
		}
	}
	// objects travel through the JSON wire format on their way to the (fake) API server
	patcher := NewObjectPatcher(vfx.NewWireClient(client), log.NewNop())
	func() {
		defer func() {
			if r := recover(); r != nil {
				panicked = fmt.Sprint(r)
			}
		}()
		// exactly what the operator does with the hook's patch file
		ops, err := ParseOperations([]byte(text))
		if err != nil {
			parseErr = err
			return
		}
		applyErr = patcher.ExecuteOperations(ops)
	}()
	return fmtState(c13state(patcher, nil)), parseErr, applyErr, panicked
}

// c13replace: CreateOrUpdate replaces the object that exists - what the document does not
// mention is gone afterwards - also when every field the document does mention already has
// that value. Objects with string fields only (a ConfigMap's data), inline and as a string.
func c13replace(r *vres.R) {
	docObj := `{"apiVersion":"v1","kind":"ConfigMap","metadata":{"name":"cms","namespace":"default","labels":{"app":"x"}},"data":{"k":"v"}}`
	variants := map[string]string{
		"json-inline": `{"operation":"CreateOrUpdate","object":` + docObj + `}`,
		"json-string": `{"operation":"CreateOrUpdate","object":` + fmt.Sprintf("%q", docObj) + `}`,
		"yaml-inline": "operation: CreateOrUpdate\nobject:\n  apiVersion: v1\n  kind: ConfigMap\n  metadata:\n    name: cms\n    namespace: default\n    labels:\n      app: x\n  data:\n    k: v\n",
		"yaml-string": "operation: CreateOrUpdate\nobject: |\n  " + docObj + "\n",
	}
	existing := map[string]map[string]any{
		"equal":        {"k": "v"},
		"extra-key":    {"k": "v", "obsolete": "x"},
		"other-value":  {"k": "old"},
		"extra+other":  {"k": "old", "obsolete": "x"},
		"absent":       nil,
	}
	for vn, text := range variants {
		for en, data := range existing {
			key := "replace|" + vn + "|existing=" + en
			if !r.Want(key) {
				continue
			}
			client := vfx.NewMiniCluster()
			wire := vfx.NewWireClient(client)
			if data != nil {
				obj := &unstructured.Unstructured{Object: map[string]any{"apiVersion": "v1", "kind": "ConfigMap",
					"metadata": map[string]any{"name": "cms", "namespace": "default", "labels": map[string]any{"app": "x", "old": "label"}}, "data": data}}
				if _, err := wire.Dynamic().Resource(c13gvr).Namespace("default").Create(context.TODO(), obj, metav1.CreateOptions{}); err != nil {
					panic(err)
				}
			}
			r.Eval(1)
			r.Transition(1)
			ops, err := ParseOperations([]byte(text))
			if err != nil {
				r.Violation("C13 valid-stream-rejected encoding="+vn[:4], key, err.Error(), nil)
				continue
			}
			if err := NewObjectPatcher(wire, log.NewNop()).ExecuteOperations(ops); err != nil {
				r.Violation("C13 apply-error encoding="+vn[:4], key, err.Error(), nil)
				continue
			}
			got, err := client.Dynamic().Resource(c13gvr).Namespace("default").Get(context.TODO(), "cms", metav1.GetOptions{})
			if err != nil {
				r.Violation("C13 final-state encoding="+vn[:4], key, err.Error(), nil)
				continue
			}
			d, _, _ := unstructured.NestedMap(got.Object, "data")
			state := fmt.Sprintf("data=%v labels=%v", d, got.GetLabels())
			if state != "data=map[k:v] labels=map[app:x]" {
				r.Violation("C13 createOrUpdate-did-not-replace encoding="+vn[:4], key, "the object ends as "+state+", the document says data=map[k:v] labels=map[app:x]", nil)
				continue
			}
			r.State(key)
			r.Outcome(key, true)
		}
	}
}

// c13lateKind: an API server serves a custom kind only while its CustomResourceDefinition
// exists, so whether a document's kind is known depends on the documents before it.
type c13lateKind struct{ *vfx.WireClient }

var (
	c13crdGVR = schema.GroupVersionResource{Group: "apiextensions.k8s.io", Version: "v1", Resource: "customresourcedefinitions"}
	c13ctGVR  = schema.GroupVersionResource{Group: "stable.example.com", Version: "v1", Resource: "crontabs"}
)

func (c c13lateKind) GroupVersionResource(apiVersion, kind string) (schema.GroupVersionResource, error) {
	if kind != "CronTab" {
		return c.WireClient.GroupVersionResource(apiVersion, kind)
	}
	if _, err := c.WireClient.Client.Dynamic().Resource(c13crdGVR).Get(context.TODO(), "crontabs.stable.example.com", metav1.GetOptions{}); err != nil {
		return schema.GroupVersionResource{}, fmt.Errorf("apiVersion '%s', kind '%s' is not supported by cluster", apiVersion, kind)
	}
	return c13ctGVR, nil
}

// c13dependent: documents are applied one after another, each with its own effect, so a later
// document may rely on what an earlier one has done to the cluster - here: the first document
// installs the definition of the kind the next ones work with - and a document that fails
// (the kind is not served yet) does not keep the others from being applied.
func c13dependent(r *vres.R) {
	crd := `{"operation":"CreateOrUpdate","object":{"apiVersion":"apiextensions.k8s.io/v1","kind":"CustomResourceDefinition","metadata":{"name":"crontabs.stable.example.com"},"spec":{"group":"stable.example.com","scope":"Namespaced","names":{"kind":"CronTab","plural":"crontabs"}}}}`
	mk := func(name string) string {
		return `{"operation":"Create","object":{"apiVersion":"stable.example.com/v1","kind":"CronTab","metadata":{"namespace":"default","name":"` + name + `"},"spec":{"image":"old"}}}`
	}
	patch := `{"operation":"MergePatch","apiVersion":"stable.example.com/v1","kind":"CronTab","namespace":"default","name":"c1","mergePatch":{"spec":{"image":"new"}}}`
	del := `{"operation":"DeleteNonCascading","apiVersion":"stable.example.com/v1","kind":"CronTab","namespace":"default","name":"c1"}`
	cases := []struct {
		id      string
		docs    []string
		wantErr bool
		want    string
	}{
		{"crd;create;patch", []string{crd, mk("c1"), patch}, false, "crd c1=new"},
		{"crd;create;create2;delete", []string{crd, mk("c1"), mk("c2"), del}, false, "crd c2=old"},
		{"create;crd;create2", []string{mk("c1"), crd, mk("c2")}, true, "crd c2=old"},
		{"create", []string{mk("c1")}, true, ""},
		{"patch;crd", []string{patch, crd}, true, "crd"},
	}
	for _, enc := range []string{"json", "yaml"} {
		for _, cse := range cases {
			key := "dependent|" + enc + "|" + cse.id
			if !r.Want(key) {
				continue
			}
			text := strings.Join(cse.docs, "\n")
			if enc == "yaml" {
				text = "---\n" + strings.Join(cse.docs, "\n---\n") + "\n" // a JSON document is a YAML document
			}
			client := vfx.NewMiniCluster()
			r.Eval(1)
			r.Transition(int64(len(cse.docs)))
			ops, err := ParseOperations([]byte(text))
			if err != nil {
				r.Violation("C13 valid-stream-rejected encoding="+enc, key, err.Error(), nil)
				continue
			}
			err = NewObjectPatcher(c13lateKind{vfx.NewWireClient(client)}, log.NewNop()).ExecuteOperations(ops)
			var have []string
			if _, e := client.Dynamic().Resource(c13crdGVR).Get(context.TODO(), "crontabs.stable.example.com", metav1.GetOptions{}); e == nil {
				have = append(have, "crd")
			}
			for _, n := range []string{"c1", "c2"} {
				if o, e := client.Dynamic().Resource(c13ctGVR).Namespace("default").Get(context.TODO(), n, metav1.GetOptions{}); e == nil {
					img, _, _ := unstructured.NestedString(o.Object, "spec", "image")
					have = append(have, n+"="+img)
				}
			}
			got := strings.Join(have, " ")
			if got != cse.want {
				r.Violation("C13 later-document-relies-on-earlier encoding="+enc, key, fmt.Sprintf("documents [%s]: the cluster ends with [%s] (error: %v), applying them one after another gives [%s]", cse.id, got, err, cse.want), nil)
				continue
			}
			if (err != nil) != cse.wantErr {
				r.Violation("C13 apply-error-report encoding="+enc, key, fmt.Sprintf("documents [%s]: error %v, expected an error: %v", cse.id, err, cse.wantErr), nil)
				continue
			}
			r.State(key)
			r.Outcome(key+"|"+got, true)
		}
	}
}

// c13twoGroups: a kind served by two API groups. A document names its object by apiVersion and
// kind, or by kind alone (the cluster's preferred group for that kind): what a document addresses
// does not depend on the documents before it, in the same stream or in an earlier stream given to
// the same patcher. Differential oracle: the group a bare kind resolves to is taken from a
// one-document stream on a fresh patcher.
func c13twoGroups(r *vres.R) {
	gvrOf := map[string]schema.GroupVersionResource{
		"alpha": {Group: "alpha.example.com", Version: "v1", Resource: "widgets"},
		"beta":  {Group: "beta.example.com", Version: "v1", Resource: "widgets"},
	}
	doc := func(op, group, tag string) string {
		av := ""
		if group != "bare" {
			av = `"apiVersion":"` + group + `.example.com/v1",`
		}
		if op == "delete" {
			return `{"operation":"DeleteNonCascading",` + av + `"kind":"Widget","namespace":"default","name":"w"}`
		}
		return `{"operation":"MergePatch",` + av + `"kind":"Widget","namespace":"default","name":"w","mergePatch":{"spec":{"` + tag + `":"yes"}}}`
	}
	type step struct{ op, group string }
	alphabet := []step{{"patch", "alpha"}, {"patch", "beta"}, {"patch", "bare"}, {"delete", "bare"}, {"delete", "beta"}}
	run := func(seq []step, split int) (string, error) {
		client := vfx.NewMiniCluster()
		for g, gvr := range gvrOf {
			o := &unstructured.Unstructured{Object: map[string]any{"apiVersion": g + ".example.com/v1", "kind": "Widget",
				"metadata": map[string]any{"name": "w", "namespace": "default"}, "spec": map[string]any{}}}
			if _, err := client.Dynamic().Resource(gvr).Namespace("default").Create(context.TODO(), o, metav1.CreateOptions{}); err != nil {
				panic(err)
			}
		}
		patcher := NewObjectPatcher(vfx.NewWireClient(client), log.NewNop())
		var firstErr error
		apply := func(part []step, base int) {
			if len(part) == 0 {
				return
			}
			var docs []string
			for i, st := range part {
				docs = append(docs, doc(st.op, st.group, fmt.Sprintf("s%d", base+i)))
			}
			ops, err := ParseOperations([]byte(strings.Join(docs, "\n")))
			if err == nil {
				err = patcher.ExecuteOperations(ops)
			}
			if err != nil && firstErr == nil {
				firstErr = err
			}
		}
		apply(seq[:split], 0)
		apply(seq[split:], split)
		var st []string
		for _, g := range []string{"alpha", "beta"} {
			o, err := client.Dynamic().Resource(gvrOf[g]).Namespace("default").Get(context.TODO(), "w", metav1.GetOptions{})
			if err != nil {
				st = append(st, g+"=absent")
				continue
			}
			spec, _, _ := unstructured.NestedMap(o.Object, "spec")
			var ks []string
			for k := range spec {
				ks = append(ks, k)
			}
			sort.Strings(ks)
			st = append(st, g+"="+strings.Join(ks, "+"))
		}
		return strings.Join(st, " "), firstErr
	}
	// which group does a bare kind address
	probe, _ := run([]step{{"patch", "bare"}}, 0)
	bare := ""
	switch probe {
	case "alpha=s0 beta=":
		bare = "alpha"
	case "alpha= beta=s0":
		bare = "beta"
	default:
		r.Violation("C13 bare-kind-resolution", "two-groups|probe", "a MergePatch without apiVersion on a kind served by two groups left the cluster as ["+probe+"]", nil)
		return
	}
	for n := 2; n <= 3; n++ {
		idx := make([]int, n)
		for {
			seq := make([]step, n)
			var ids []string
			for i, v := range idx {
				seq[i] = alphabet[v]
				ids = append(ids, alphabet[v].op+":"+alphabet[v].group)
			}
			for split := 0; split < n; split++ {
				key := fmt.Sprintf("two-groups|%s|split=%d", strings.Join(ids, ","), split)
				if !r.Want(key) {
					continue
				}
				// reference: every document acts on the group it names (bare: the probed one)
				state := map[string]map[string]bool{"alpha": {}, "beta": {}}
				for i, st := range seq {
					g := st.group
					if g == "bare" {
						g = bare
					}
					if state[g] == nil {
						continue // the object is gone: the patch fails, the delete is a no-op
					}
					if st.op == "delete" {
						state[g] = nil
					} else {
						state[g][fmt.Sprintf("s%d", i)] = true
					}
				}
				var want []string
				for _, g := range []string{"alpha", "beta"} {
					if state[g] == nil {
						want = append(want, g+"=absent")
						continue
					}
					var ks []string
					for k := range state[g] {
						ks = append(ks, k)
					}
					sort.Strings(ks)
					want = append(want, g+"="+strings.Join(ks, "+"))
				}
				got, err := run(seq, split)
				r.Eval(1)
				r.Transition(int64(n))
				if got != strings.Join(want, " ") {
					r.Violation("C13 document-applied-to-another-object", key, fmt.Sprintf("documents [%s] (second stream from document %d on): the cluster ends as [%s] (error: %v), every document applied to the object it names gives [%s] (a bare kind addresses group %s)", strings.Join(ids, ", "), split, got, err, strings.Join(want, " "), bare), nil)
					continue
				}
				r.State(key)
				r.Outcome("two-groups|"+got, true)
			}
			i := n - 1
			for i >= 0 {
				idx[i]++
				if idx[i] < len(alphabet) {
					break
				}
				idx[i] = 0
				i--
			}
			if i < 0 {
				break
			}
		}
	}
}

func TestVerifC13(t *testing.T) {
	r := vres.New("c13")
	defer r.Finish()
	if s, _ := vres.Shard(); s == 0 || r.Replaying() {
		c13replace(r)
		c13dependent(r)
		c13twoGroups(r)
	}
	alpha := c13alphabet()
	var usable []c13op
	for _, o := range alpha {
		if o.slow && !vres.Thorough() {
			continue // Delete (foreground) polls with a real 1 s interval: thorough tier only
		}
		usable = append(usable, o)
	}
	maxLen := 3
	r.Bound("operation_alphabet", len(usable))
	r.Bound("max_documents", maxLen)
	var ord int64
	for n := 1; n <= maxLen; n++ {
		idx := make([]int, n)
		for {
			stream := make([]c13op, n)
			ids := make([]string, n)
			invalid, slow := 0, 0
			for i, v := range idx {
				stream[i] = usable[v]
				ids[i] = usable[v].id
				if usable[v].invalid {
					invalid++
				}
				if usable[v].slow {
					slow++
				}
			}
			// quick tier: all 1- and 2-document streams; 3-document streams with at most one invalid document and a spread
			take := n < 3 || vres.Thorough() || (invalid <= 1 && (idx[0]+idx[1]*3+idx[2]*5)%4 == 0)
			if slow > 1 {
				take = false
			}
			if take {
				for _, initial := range []bool{false, true} {
					ord++
					if !(vres.Mine(ord) || r.Replaying()) {
						continue
					}
					key := fmt.Sprintf("initial=%v|%s", initial, strings.Join(ids, " ; "))
					if !r.Want(key) {
						continue
					}
					c13case(r, key, stream, initial, invalid > 0)
				}
			}
			i := n - 1
			for i >= 0 {
				idx[i]++
				if idx[i] < len(usable) {
					break
				}
				idx[i] = 0
				i--
			}
			if i < 0 || r.Expired() {
				break
			}
		}
	}
}

func c13case(r *vres.R, key string, stream []c13op, initial bool, hasInvalid bool) {
	var js, ys []string
	for _, o := range stream {
		js = append(js, o.json)
		ys = append(ys, o.yaml)
	}
	jsonText := strings.Join(js, "\n") + "\n"
	yamlText := strings.Join(ys, "---\n")
	r.Eval(1)
	r.Transition(int64(len(stream)))
	before := "cm=5.5"
	if !initial {
		before = ""
	}
	type res struct {
		state            string
		parseErr, appErr error
		panicked         string
	}
	run := func(text string) res {
		s, pe, ae, pn := c13apply(text, initial)
		return res{s, pe, ae, pn}
	}
	rj, ry := run(jsonText), run(yamlText)
	results := map[string]res{"json": rj, "yaml": ry}
	if !hasInvalid && len(stream) >= 2 {
		// a YAML stream whose documents are written in JSON notation (jq -c ...; echo ---; jq -c ...),
		// and one that starts with such a document and goes on in block style
		results["yaml-of-json-documents"] = run(strings.Join(js, "\n---\n") + "\n")
		results["json-document-then-yaml"] = run(js[0] + "\n---\n" + strings.Join(ys[1:], "---\n"))
	}
	for enc, x := range results {
		if x.panicked != "" {
			r.Violation("C13 panic encoding="+enc, key, x.panicked, nil)
			r.Outcome("V:panic", true)
			return
		}
		if hasInvalid {
			if x.parseErr == nil {
				r.Violation("C13 invalid-document-accepted encoding="+enc, key, "a stream with an invalid document was accepted", nil)
				r.Outcome("V:accepted", true)
				return
			}
			if x.state != before {
				r.Violation("C13 partially-applied encoding="+enc, key, fmt.Sprintf("the stream was rejected but the cluster changed: %q -> %q", before, x.state), nil)
				r.Outcome("V:partial", true)
				return
			}
			continue
		}
		if x.parseErr != nil {
			r.Violation("C13 valid-stream-rejected encoding="+enc, key, x.parseErr.Error(), nil)
			r.Outcome("V:rejected", true)
			return
		}
		want, wantErr := c13reference(initial, stream)
		if x.state != fmtState(want) {
			r.Violation("C13 final-state encoding="+enc, key, fmt.Sprintf("cluster ends as %q, want %q (apply error: %v)", x.state, fmtState(want), x.appErr), nil)
			r.Outcome("V:state", true)
			return
		}
		if wantErr != (x.appErr != nil) {
			r.Violation("C13 apply-error encoding="+enc, key, fmt.Sprintf("apply error %v, expected an error: %v", x.appErr, wantErr), nil)
			r.Outcome("V:err", true)
			return
		}
	}
	if !hasInvalid {
		// the same documents as JSON and as YAML produce the same operations (types included)
		sj, ej := unmarshalFromJSONOrYAML([]byte(jsonText))
		sy, ey := unmarshalFromJSONOrYAML([]byte(yamlText))
		if ej != nil || ey != nil {
			r.Violation("C13 decode", key, fmt.Sprintf("json: %v yaml: %v", ej, ey), nil)
			return
		}
		nj, ny := c13norm(sj), c13norm(sy)
		if !reflect.DeepEqual(nj, ny) {
			bj, _ := json.Marshal(nj)
			by, _ := json.Marshal(ny)
			r.Violation("C13 json-yaml-differ", key, fmt.Sprintf("operations differ:\njson %s\nyaml %s", bj, by), nil)
			r.Outcome("V:differ", true)
			return
		}
	}
	oc := fmt.Sprintf("%v|%s|%v", initial, rj.state, rj.appErr != nil)
	r.State(key)
	r.Outcome(oc, len(stream) > 1)
	r.Sample(map[string]any{"stream": key, "final_cluster": rj.state, "apply_error": rj.appErr != nil, "rejected": rj.parseErr != nil})
}

// c13norm makes stringified objects/patches comparable with inline ones being different on purpose:
// only the decoded Go values are compared, strings stay strings.
func c13norm(specs []OperationSpec) []OperationSpec {
	out := make([]OperationSpec, len(specs))
	copy(out, specs)
	for i := range out {
		// block scalars in YAML carry a trailing newline that the JSON string does not: trim it
		for _, f := range []*any{&out[i].Object, &out[i].MergePatch, &out[i].JSONPatch} {
			if s, ok := (*f).(string); ok {
				*f = strings.TrimSpace(s)
			}
		}
	}
	return out
}
