package utils

// C20 part a — hook discovery: exactly the executable files outside lib/ and hidden paths.
// Directory trees built from 1..3 entries (path of up to 3 components over directories
// {sub, lib, .hid, x.d} and file names {h, h.sh, .h, c.yaml, c.json, r.md, n.txt, lib} with
// five permission modes) under hooks directories named hooks / lib / .hooks are created on
// a real file system; RecursiveGetExecutablePaths is compared with the rule of the statement.

import (
	"fmt"
	"os"
	"path/filepath"
	"sort"
	"strings"
	"testing"

	"github.com/deckhouse/deckhouse/pkg/log"

	"github.com/flant/shell-operator/pkg/zzverif/vres"
)

func init() { log.SetDefault(log.NewNop()) }

type c20entry struct {
	rel  string
	mode os.FileMode
}

func (e c20entry) String() string { return fmt.Sprintf("%s:%04o", e.rel, e.mode) }

func c20isHook(e c20entry) bool {
	parts := strings.Split(e.rel, "/")
	name := parts[len(parts)-1]
	for _, d := range parts[:len(parts)-1] {
		if d == "lib" || strings.HasPrefix(d, ".") {
			return false
		}
	}
	if strings.HasPrefix(name, ".") {
		return false
	}
	switch filepath.Ext(name) {
	case ".yaml", ".json", ".md", ".txt":
		return false
	}
	return e.mode&0o111 != 0
}

func c20base() string {
	if st, err := os.Stat("/dev/shm"); err == nil && st.IsDir() {
		return "/dev/shm"
	}
	return os.TempDir()
}

func c20run(root string, entries []c20entry) (sig, what, outcome string) {
	base, err := os.MkdirTemp(c20base(), "zzverif-c20-")
	if err != nil {
		panic(err)
	}
	defer os.RemoveAll(base)
	dir := filepath.Join(base, root)
	_ = os.MkdirAll(dir, 0o755)
	var want []string
	for _, e := range entries {
		p := filepath.Join(dir, e.rel)
		if err := os.MkdirAll(filepath.Dir(p), 0o755); err != nil {
			return "", "", "skip" // a file is in the way of a directory: not a tree
		}
		if st, err := os.Lstat(p); err == nil && st.IsDir() {
			return "", "", "skip"
		}
		if e.mode&os.ModeSymlink != 0 {
			// the entry is a symbolic link to an executable kept outside the hooks directory (the way
			// kubelet lays out ConfigMap / Secret volumes): a file that carries an execute bit
			target := filepath.Join(base, "targets", strings.ReplaceAll(e.rel, "/", "_"))
			_ = os.MkdirAll(filepath.Dir(target), 0o755)
			if err := os.WriteFile(target, []byte("#!/bin/sh\n"), 0o755); err != nil {
				return "", "", "skip"
			}
			if err := os.Symlink(target, p); err != nil {
				return "", "", "skip"
			}
		} else {
			if err := os.WriteFile(p, []byte("#!/bin/sh\n"), e.mode); err != nil {
				return "", "", "skip"
			}
			_ = os.Chmod(p, e.mode)
		}
		if c20isHook(e) {
			want = append(want, e.rel)
		}
	}
	got, err := RecursiveGetExecutablePaths(dir)
	if err != nil {
		return "C20a error", err.Error(), ""
	}
	var rel []string
	for _, g := range got {
		r, _ := filepath.Rel(dir, g)
		rel = append(rel, r)
	}
	sort.Strings(rel)
	sort.Strings(want)
	// drop duplicates in want (same entry listed twice overwrites)
	want = uniq(want)
	if strings.Join(rel, ",") != strings.Join(want, ",") {
		cls := "root=plain"
		if root == "lib" || strings.HasPrefix(root, ".") {
			cls = "root=" + root
		}
		kind := "missing"
		if len(rel) > len(want) {
			kind = "extra"
		}
		return "C20a discovery " + kind + " " + cls, fmt.Sprintf("hooks dir %q with %v: discovered %v, want %v", root, entries, rel, want), ""
	}
	return "", "", strings.Join(rel, ",")
}

func uniq(s []string) []string {
	var out []string
	for i, x := range s {
		if i == 0 || x != s[i-1] {
			out = append(out, x)
		}
	}
	return out
}

func TestVerifC20a(t *testing.T) {
	r := vres.New("c20a")
	defer r.Finish()
	dirs := []string{"sub", "lib", ".hid", "x.d"}
	files := []string{"h", "h.sh", ".h", "c.yaml", "c.json", "r.md", "n.txt", "lib"}
	modes := []os.FileMode{0o644, 0o755, 0o700, 0o010, 0o001, os.ModeSymlink | 0o755}
	var paths []string
	paths = append(paths, files...)
	for _, d := range dirs {
		for _, f := range files {
			paths = append(paths, d+"/"+f)
		}
	}
	for _, d1 := range dirs {
		for _, d2 := range dirs {
			for _, f := range files {
				paths = append(paths, d1+"/"+d2+"/"+f)
			}
		}
	}
	var all []c20entry
	for _, p := range paths {
		for _, m := range modes {
			all = append(all, c20entry{p, m})
		}
	}
	// reduced pools for pairs / triples: executable variants of a spread of paths
	var pool2, pool3 []c20entry
	for i, p := range paths {
		if i%3 == 0 || strings.Count(p, "/") == 0 {
			pool2 = append(pool2, c20entry{p, 0o755})
		}
		if i%11 == 0 {
			pool3 = append(pool3, c20entry{p, 0o755}, c20entry{p, 0o644})
		}
	}
	roots := []string{"hooks", "lib", ".hooks"}
	r.Bound("single_entry_trees", len(all)*len(roots))
	r.Bound("pair_pool", len(pool2))
	r.Bound("triple_pool", len(pool3))
	var ord int64
	eval := func(root string, es []c20entry) {
		// one path cannot be two files: tuples naming the same path twice (with different modes)
		// or using a path both as a file and as a directory of another entry are not trees
		for i := range es {
			for j := range es {
				if i != j && (es[i].rel == es[j].rel || strings.HasPrefix(es[j].rel, es[i].rel+"/")) {
					return
				}
			}
		}
		ord++
		if !(vres.Mine(ord) || r.Replaying()) {
			return
		}
		key := root + "|" + fmt.Sprint(es)
		if !r.Want(key) {
			return
		}
		sig, what, outcome := c20run(root, es)
		if outcome == "skip" {
			return
		}
		r.Eval(1)
		r.Transition(1)
		if sig != "" {
			r.Violation(sig, key, what, nil)
			r.Outcome("V:"+sig, true)
			return
		}
		r.State(key)
		r.Outcome(outcome, len(es) > 1 || strings.Contains(es[0].rel, "/"))
		r.Sample(map[string]any{"hooks_dir": root, "entries": fmt.Sprint(es), "discovered": outcome})
	}
	for _, root := range roots {
		for _, e := range all {
			eval(root, []c20entry{e})
		}
	}
	for i := range pool2 {
		for j := i + 1; j < len(pool2); j++ {
			eval("hooks", []c20entry{pool2[i], pool2[j]})
		}
		if r.Expired() {
			return
		}
	}
	if vres.Thorough() {
		for i := range pool3 {
			for j := i + 1; j < len(pool3); j++ {
				for k := j + 1; k < len(pool3); k++ {
					eval("hooks", []c20entry{pool3[i], pool3[j], pool3[k]})
				}
			}
			if r.Expired() {
				return
			}
		}
	}
}
