package kubeeventsmanager

// C01 level 1 — no cluster change is lost between Synchronization and later Events.
// The real kubeEventsManager / monitor / resourceInformer code (instrumented: locks, channel
// operations, goroutine starts and the racy flags are scheduling points) runs under the
// controlled scheduler against the fake cluster, informers behind the hub seam. Threads:
// one delivery thread per informer, an environment thread mutating the cluster, the
// Synchronization thread (Snapshot; hook run; EnableKubeEventCb), optional extra snapshot
// readers, the consumer of the event channel. All interleavings up to the deviation bound
// are explored for every scenario (history x configuration x actors); the oracle is the
// suffix oracle of DESIGN.md §5 C01 against the environment's own mutation log.

import (
	"os"
	"context"
	"encoding/json"
	"fmt"
	"sort"
	"strings"
	"testing"
	"time"

	"github.com/deckhouse/deckhouse/pkg/log"
	v1 "k8s.io/api/core/v1"
	metav1 "k8s.io/apimachinery/pkg/apis/meta/v1"
	"k8s.io/apimachinery/pkg/apis/meta/v1/unstructured"
	"k8s.io/apimachinery/pkg/runtime/schema"

	klient "github.com/flant/kube-client/client"
	kemtypes "github.com/flant/shell-operator/pkg/kube_events_manager/types"
	"github.com/flant/shell-operator/pkg/zzverif/vfx"
	"github.com/flant/shell-operator/pkg/zzverif/vres"
	"github.com/flant/shell-operator/pkg/zzverif/vrt"
)

var c01gvr = schema.GroupVersionResource{Version: "v1", Resource: "configmaps"}

type c01mut struct {
	Kind string // create modify delete nscreate nsdelete
	Ns   string
	Obj  string
	Ver  int
	Proj string
}

func (m c01mut) String() string {
	return fmt.Sprintf("%s(%s/%s v%d p=%s)", m.Kind, m.Ns, m.Obj, m.Ver, m.Proj)
}

type c01scenario struct {
	Name      string
	Initial   []c01mut // objects present before the monitor is created (Kind=create)
	History   []c01mut
	JqFilter  string
	KeepFull  bool
	Types     []kemtypes.WatchEventType
	Readers   int
	NsLabel   bool     // binding uses namespace.labelSelector {watch=yes}
	LabeledNs []string // namespaces carrying the label initially
	LateNs    string   // namespace created (labelled) by the environment as first step of the history
	SlowConsumer bool  // the event-channel consumer is a thread of its own (can lag, lets senders block)
	QuickBound   int   // deviation bound in the quick tier when > 0 (heavier thread sets); the thorough tier uses the full bound
	ThoroughOnly bool
	EnvPrefill   int   // with EnvThread: this many leading mutations are applied before the threads start
	EnvThread    bool  // the environment mutates concurrently (needed when LISTs happen after start); otherwise
	// all mutations are applied, and their callbacks queued in the informers' FIFOs, before the
	// other threads start: an informer may lag arbitrarily, so this loses no interleaving.
}

func c01obj(ns, name string, ver int, proj string) *unstructured.Unstructured {
	return &unstructured.Unstructured{Object: map[string]any{
		"apiVersion": "v1", "kind": "ConfigMap",
		"metadata": map[string]any{"name": name, "namespace": ns},
		"data":     map[string]any{"v": fmt.Sprint(ver), "p": proj},
	}}
}

type c01event struct {
	Seq     int
	Type    string
	Id      string // ns/name
	Ver     int
	Deleted bool
}

type c01obs struct {
	Snapshot     map[string]int // id -> version seen by the Synchronization thread
	EnableSeq    int            // global sequence number when EnableKubeEventCb was entered
	Events       []c01event
	Log          []c01mut
	Quiet        bool
	K1, K2       int
	LateRegAt    map[string]int // namespace -> number of environment mutations made before the informer created at run time for it registered
	End          string
	Panics       []string
	Blocked      []string
}

func c01verOf(o kemtypes.ObjectAndFilterResult) (id string, ver int) {
	parts := strings.Split(o.Metadata.ResourceId, "/")
	id = o.Metadata.ResourceId
	if len(parts) == 3 {
		id = parts[0] + "/" + parts[2]
	}
	ver = -1
	if o.Object != nil {
		if d, ok := o.Object.Object["data"].(map[string]any); ok {
			fmt.Sscan(fmt.Sprint(d["v"]), &ver)
		}
		return
	}
	// full object dropped: the projection carries the version
	var fr map[string]any
	switch x := o.FilterResult.(type) {
	case string:
		_ = json.Unmarshal([]byte(x), &fr)
	case map[string]any:
		fr = x
	}
	if fr != nil {
		fmt.Sscan(fmt.Sprint(fr["v"]), &ver)
	}
	return
}

// c01body is one execution of a scenario.
func c01body(sc c01scenario, obs *c01obs) func(x *vrt.Exec) {
	return func(x *vrt.Exec) {
		cluster := struct{ Client *klient.Client }{vfx.NewMiniCluster()}
		dyn := cluster.Client.Dynamic()
		hub := &ZZHub{}
		ZZInstallHub(hub)
		defer ZZInstallHub(nil)
		ctx, cancel := context.WithCancel(context.Background())
		defer cancel()
		nsSeen := map[string]bool{}
		mkns := func(ns string, labelled bool) *v1.Namespace {
			n := &v1.Namespace{ObjectMeta: metav1.ObjectMeta{Name: ns}}
			if labelled {
				n.Labels = map[string]string{"watch": "yes"}
			}
			return n
		}
		for _, ns := range sc.LabeledNs {
			_, _ = cluster.Client.CoreV1().Namespaces().Create(ctx, mkns(ns, true), metav1.CreateOptions{})
			nsSeen[ns] = true
		}
		for _, m := range sc.Initial {
			if !nsSeen[m.Ns] {
				_, _ = cluster.Client.CoreV1().Namespaces().Create(ctx, mkns(m.Ns, false), metav1.CreateOptions{})
				nsSeen[m.Ns] = true
			}
			if _, err := dyn.Resource(c01gvr).Namespace(m.Ns).Create(ctx, c01obj(m.Ns, m.Obj, m.Ver, m.Proj), metav1.CreateOptions{}); err != nil {
				panic(err)
			}
		}

		mgr := NewKubeEventsManager(ctx, cluster.Client, log.NewNop())
		mgr.WithMetricStorage(vfx.NopStorage{})
		mc := &MonitorConfig{Kind: "ConfigMap", ApiVersion: "v1", JqFilter: sc.JqFilter, KeepFullObjectsInMemory: sc.KeepFull}
		mc.Metadata.MonitorId = "mon"
		mc.Metadata.DebugName = "c01"
		mc.Metadata.LogLabels = map[string]string{}
		mc.Metadata.MetricLabels = map[string]string{}
		mc.Logger = log.NewNop()
		mc.WithEventTypes(sc.Types)
		if sc.NsLabel {
			mc.NamespaceSelector = &kemtypes.NamespaceSelector{LabelSelector: &metav1.LabelSelector{MatchLabels: map[string]string{"watch": "yes"}}}
		}
		var mon Monitor
		vrt.Atomic(func() {
			if err := mgr.AddMonitor(mc); err != nil {
				panic(err)
			}
			mgr.StartMonitor("mon")
			mon = mgr.GetMonitor("mon")
		})

		seq := 0
		next := func() int { seq++; return seq }
		envDone, syncDone, readersDone := false, false, 0

		record := func(ev kemtypes.KubeEvent) {
			for i, o := range ev.Objects {
				id, ver := c01verOf(o)
				t := ""
				if i < len(ev.WatchEvents) {
					t = string(ev.WatchEvents[i])
				}
				obs.Events = append(obs.Events, c01event{Seq: next(), Type: t, Id: id, Ver: ver, Deleted: t == "Deleted"})
			}
		}
		if sc.SlowConsumer {
			// consumer of the event channel as a thread (the single events-handler goroutine)
			vrt.GoNamed("consumer", func() {
				for {
					record(vrt.Recv(mgr.Ch()))
				}
			})
		} else {
			// zero-latency consumer: drains the channel at every scheduling decision
			vrt.Eager(func() {
				for len(mgr.Ch()) > 0 {
					record(<-mgr.Ch())
				}
			})
		}
		// environment: cluster mutations, each atomically with its informer notifications
		mutate := func(m c01mut) {
			switch m.Kind {
			case "nscreate":
				n := mkns(m.Ns, true)
				_, _ = cluster.Client.CoreV1().Namespaces().Create(ctx, n, metav1.CreateOptions{})
				hub.NotifyNs("add", n)
			case "create":
				o := c01obj(m.Ns, m.Obj, m.Ver, m.Proj)
				if _, err := dyn.Resource(c01gvr).Namespace(m.Ns).Create(ctx, o, metav1.CreateOptions{}); err != nil {
					panic(err)
				}
				hub.Notify(c01gvr, "add", nil, o)
			case "modify":
				old, err := dyn.Resource(c01gvr).Namespace(m.Ns).Get(ctx, m.Obj, metav1.GetOptions{})
				if err != nil {
					panic(err)
				}
				o := c01obj(m.Ns, m.Obj, m.Ver, m.Proj)
				if _, err := dyn.Resource(c01gvr).Namespace(m.Ns).Update(ctx, o, metav1.UpdateOptions{}); err != nil {
					panic(err)
				}
				hub.Notify(c01gvr, "update", old, o)
			case "delete":
				old, err := dyn.Resource(c01gvr).Namespace(m.Ns).Get(ctx, m.Obj, metav1.GetOptions{})
				if err != nil {
					panic(err)
				}
				if err := dyn.Resource(c01gvr).Namespace(m.Ns).Delete(ctx, m.Obj, metav1.DeleteOptions{}); err != nil {
					panic(err)
				}
				hub.Notify(c01gvr, "delete", nil, old)
			}
			obs.Log = append(obs.Log, m)
		}
		if sc.EnvThread {
			for _, m := range sc.History[:sc.EnvPrefill] {
				mutate(m)
			}
			vrt.GoNamed("env", func() {
				for _, m := range sc.History[sc.EnvPrefill:] {
					vrt.Yield("env-mutation")
					mutate(m)
				}
				envDone = true
			})
		} else {
			for _, m := range sc.History {
				mutate(m)
			}
			envDone = true
		}
		// Environment timing is scripted, not pre-empted: how many informer deliveries are over
		// before the Synchronization view is taken (k1) and before the unlock (k2), and in which
		// phase another reader acts, are enumerated with vrt.Choose (cost 0). Overlap of a
		// delivery with Snapshot / EnableKubeEventCb inside a phase needs pre-emptions (bounded).
		scripted := !sc.EnvThread
		total := hub.Queued()
		phase := 0 // 1: Synchronization view taken, 2: unlocked
		k1, k2 := 0, 0
		if scripted {
			hub.Gated = true
			k1 = vrt.Choose(total+1, "deliveries-before-sync-view")
			k2 = k1 + vrt.Choose(total-k1+1, "deliveries-during-hook-run")
			hub.Allowed = k1
		}
		obs.K1, obs.K2 = k1, k2
		// the Synchronization run of the binding
		vrt.GoNamed("sync", func() {
			if scripted {
				vrt.Wait("sync-start", func() bool { return hub.Finished >= k1 })
				hub.Allowed = k2
			}
			snap := mon.Snapshot()
			obs.Snapshot = map[string]int{}
			for _, o := range snap {
				id, ver := c01verOf(o)
				obs.Snapshot[id] = ver
			}
			phase = 1
			if scripted {
				vrt.Wait("hook-run", func() bool { return hub.Finished >= k2 })
				hub.Allowed = total + 1000
			} else {
				vrt.Yield("hook-run")
			}
			obs.EnableSeq = next()
			mon.EnableKubeEventCb()
			phase = 2
			syncDone = true
		})
		for i := 0; i < sc.Readers; i++ {
			when := 0
			if scripted {
				when = vrt.Choose(3, "reader-phase")
			}
			vrt.GoNamed("reader", func() {
				if scripted {
					vrt.Wait("reader-start", func() bool { return phase >= when })
				} else {
					vrt.Yield("reader")
				}
				_ = mon.Snapshot()
				readersDone++
			})
		}
		obs.Quiet = vrt.WaitFor("quiet", time.Hour, func() bool {
			return envDone && syncDone && readersDone == sc.Readers && !hub.Pending() && hub.Busy == 0 && len(mgr.Ch()) == 0
		})
		obs.LateRegAt = map[string]int{}
		for _, reg := range hub.Regs {
			if reg.Late {
				obs.LateRegAt[reg.Namespace()] = reg.NotifiedBefore
			}
		}
		hub.StopAll()
	}
}

// ---- oracle ----

type c01state struct {
	present bool
	ver     int
	proj    string
}

// c01check returns "" or (signature, message).
func c01check(sc c01scenario, obs *c01obs) (string, string) {
	if len(obs.Panics) > 0 {
		return "C01-L1 panic", strings.Join(obs.Panics, "\n")
	}
	if obs.End == "deadlock" {
		return "C01-L1 deadlock", "no thread can move: " + strings.Join(obs.Blocked, "; ")
	}
	if !obs.Quiet {
		return "C01-L1 not-quiescent", "the run did not settle (" + obs.End + ")"
	}
	enabled := map[string]bool{}
	for _, t := range sc.Types {
		enabled[string(t)] = true
	}
	if sc.Types == nil {
		enabled["Added"], enabled["Modified"], enabled["Deleted"] = true, true, true
	}
	watched := func(ns string) bool {
		if !sc.NsLabel {
			return true
		}
		for _, n := range sc.LabeledNs {
			if n == ns {
				return true
			}
		}
		return ns == sc.LateNs
	}
	// per object change lists
	type chg struct {
		st     c01state
		passes bool
		typ    string
		idx    int // position in the environment's mutation log
	}
	init := map[string]c01state{}
	ids := map[string]bool{}
	for _, m := range sc.Initial {
		if watched(m.Ns) {
			init[m.Ns+"/"+m.Obj] = c01state{true, m.Ver, m.Proj}
			ids[m.Ns+"/"+m.Obj] = true
		}
	}
	changes := map[string][]chg{}
	cur := map[string]c01state{}
	for k, v := range init {
		cur[k] = v
	}
	projOf := func(s c01state) string {
		if sc.JqFilter == "" {
			return fmt.Sprintf("%d|%s", s.ver, s.proj) // whole object
		}
		if strings.Contains(sc.JqFilter, ".data.v") {
			return fmt.Sprintf("%d|%s", s.ver, s.proj)
		}
		return s.proj
	}
	for mi, m := range obs.Log {
		if m.Kind == "nscreate" || m.Kind == "nsdelete" || !watched(m.Ns) {
			continue
		}
		id := m.Ns + "/" + m.Obj
		ids[id] = true
		prev := cur[id]
		var c chg
		switch m.Kind {
		case "delete":
			c = chg{st: c01state{}, typ: "Deleted", passes: enabled["Deleted"]}
		default:
			ns := c01state{true, m.Ver, m.Proj}
			if !prev.present {
				c = chg{st: ns, typ: "Added", passes: enabled["Added"]}
			} else {
				c = chg{st: ns, typ: "Modified", passes: enabled["Modified"] && projOf(ns) != projOf(prev)}
			}
		}
		c.idx = mi
		cur[id] = c.st
		changes[id] = append(changes[id], c)
	}
	// 1. no early event
	for _, e := range obs.Events {
		if e.Seq < obs.EnableSeq {
			return "C01-L1 early-event", fmt.Sprintf("event %+v reached the consumer before the Synchronization step completed", e)
		}
	}
	var idList []string
	for id := range ids {
		idList = append(idList, id)
	}
	sort.Strings(idList)
	for _, id := range idList {
		cs := changes[id]
		var D []c01event
		for _, e := range obs.Events {
			if e.Id == id {
				D = append(D, e)
			}
		}
		sver, sPresent := obs.Snapshot[id]
		// valid cuts: p in 0..k with state(p) == S
		stateAt := func(p int) c01state {
			if p == 0 {
				return init[id]
			}
			return cs[p-1].st
		}
		okFound := false
		for q := 0; q <= len(cs) && !okFound; q++ {
			// a valid cut p >= q must exist
			cut := false
			for p := q; p <= len(cs); p++ {
				s := stateAt(p)
				if s.present == sPresent && (!s.present || s.ver == sver) {
					cut = true
				}
			}
			if !cut {
				continue
			}
			var want []chg
			for _, c := range cs[q:] {
				if c.passes {
					want = append(want, c)
				}
			}
			if len(want) != len(D) {
				continue
			}
			match := true
			for i, c := range want {
				if D[i].Deleted != (c.typ == "Deleted") || (!D[i].Deleted && D[i].Ver != c.st.ver) {
					match = false
				}
			}
			okFound = match
		}
		if okFound {
			continue
		}
		// An informer created at run time (for a namespace that appeared after start) LISTs when it
		// registers: changes made before that are seen only as their net result (client-go
		// semantics, "Added != object created"). Accept the delivered events if they are the net
		// state followed by every later filter-passing change.
		ns := strings.SplitN(id, "/", 2)[0]
		if regAt, late := obs.LateRegAt[ns]; late {
			r := 0
			for r < len(cs) && cs[r].idx < regAt {
				r++
			}
			matchFrom := func(d []c01event, want []chg) bool {
				if len(d) != len(want) {
					return false
				}
				for i, c := range want {
					if d[i].Deleted != (c.typ == "Deleted") || (!d[i].Deleted && d[i].Ver != c.st.ver) {
						return false
					}
				}
				return true
			}
			var post []chg
			for _, c := range cs[r:] {
				if c.passes {
					post = append(post, c)
				}
			}
			if r > 0 {
				net := stateAt(r)
				if !sPresent && net.present && len(D) > 0 && !D[0].Deleted && D[0].Ver == net.ver && matchFrom(D[1:], post) {
					continue // coalesced start-up window, nothing lost
				}
				if !sPresent && !net.present && matchFrom(D, post) {
					continue
				}
				// Recorded finding (known_findings.json): the objects the new informer finds are
				// cached silently. Recognised only when exactly the pre-registration changes are missing.
				if !sPresent && net.present && matchFrom(D, post) {
					return "C01-L1 late-namespace-existing-objects-not-reported", fmt.Sprintf("object %s existed (v%d) when the informer for its late namespace was created: it was cached silently, the hook got only the %d later events and was never told that the object appeared", id, net.ver, len(D))
				}
			}
		}
		// classify
		var L []chg
		for _, c := range cs {
			if c.passes {
				L = append(L, c)
			}
		}
		sub := true
		j := 0
		for _, e := range D {
			found := false
			for j < len(L) {
				c := L[j]
				j++
				if e.Deleted == (c.typ == "Deleted") && (e.Deleted || e.Ver == c.st.ver) {
					found = true
					break
				}
			}
			if !found {
				sub = false
				break
			}
		}
		kind := "lost-event"
		if !sub {
			kind = "reordered-or-invented-event"
		}
		var ds, ls []string
		for _, e := range D {
			ds = append(ds, fmt.Sprintf("%s:v%d", e.Type, e.Ver))
		}
		for _, c := range cs {
			ls = append(ls, fmt.Sprintf("%s:v%d(pass=%v)", c.typ, c.st.ver, c.passes))
		}
		snap := "absent"
		if sPresent {
			snap = fmt.Sprintf("v%d", sver)
		}
		actor := "none"
		if sc.Readers > 0 {
			actor = "reader"
		}
		if sc.LateNs != "" {
			actor += "+late-ns"
		}
		return fmt.Sprintf("C01-L1 %s actor=%s", kind, actor),
			fmt.Sprintf("object %s: Synchronization showed %s, changes %v, hook got events %v: applying them on top of the Synchronization view does not give the final state", id, snap, ls, ds)
	}
	return "", ""
}

func c01scenarios() []c01scenario {
	a0 := c01mut{"create", "n1", "a", 0, "x"}
	var out []c01scenario
	hist := map[string][]c01mut{
		"mod-mod":    {{"modify", "n1", "a", 1, "y"}, {"modify", "n1", "a", 2, "z"}},
		"mod-create": {{"modify", "n1", "a", 1, "y"}, {"create", "n1", "b", 1, "x"}},
		"del-create": {{"delete", "n1", "a", 0, ""}, {"create", "n1", "a", 2, "x"}},
		"mod-del":    {{"modify", "n1", "a", 1, "y"}, {"delete", "n1", "a", 0, ""}},
		"b-life":     {{"create", "n2", "b", 1, "x"}, {"modify", "n2", "b", 2, "y"}, {"delete", "n2", "b", 0, ""}},
		"out-in":     {{"modify", "n1", "a", 1, "x"}, {"modify", "n1", "a", 2, "y"}},
	}
	names := []string{"mod-mod", "mod-create", "del-create", "mod-del", "b-life", "out-in"}
	for _, hn := range names {
		for _, readers := range []int{0, 1} {
			sc := c01scenario{Name: fmt.Sprintf("%s/nofilter/readers=%d", hn, readers), Initial: []c01mut{a0}, History: hist[hn], KeepFull: true, Readers: readers}
			if readers > 0 {
				sc.QuickBound = 1
				sc.ThoroughOnly = hn != "mod-mod" && hn != "mod-del"
			}
			out = append(out, sc)
		}
	}
	for _, hn := range []string{"mod-mod", "out-in", "mod-del"} {
		out = append(out, c01scenario{Name: hn + "/jq-object/readers=0", Initial: []c01mut{a0}, History: hist[hn], JqFilter: "{p: .data.p}", KeepFull: true})
		out = append(out, c01scenario{Name: hn + "/jq-nofull/readers=0", Initial: []c01mut{a0}, History: hist[hn], JqFilter: "{p: .data.p, v: .data.v}", KeepFull: false})
		out = append(out, c01scenario{Name: hn + "/only-modified/readers=0", Initial: []c01mut{a0}, History: hist[hn], KeepFull: true, Types: []kemtypes.WatchEventType{kemtypes.WatchEventModified}})
	}
	// namespace.labelSelector bindings: a labelled namespace exists, another appears after start
	out = append(out, c01scenario{Name: "ns-label/static/readers=0", NsLabel: true, LabeledNs: []string{"n1"}, Initial: []c01mut{a0}, History: hist["mod-mod"], KeepFull: true, QuickBound: 1})
	out = append(out, c01scenario{Name: "mod-mod/nofilter/slow-consumer", Initial: []c01mut{a0}, History: hist["mod-mod"], KeepFull: true, SlowConsumer: true, QuickBound: 1})
	out = append(out, c01scenario{Name: "mod-del/nofilter/env-thread", Initial: []c01mut{a0}, History: hist["mod-del"], KeepFull: true, EnvThread: true})
	out = append(out, c01scenario{Name: "ns-label/late-ns-prefilled", NsLabel: true, LateNs: "n3", KeepFull: true,
		History: []c01mut{{"nscreate", "n3", "", 0, ""}, {"create", "n3", "c", 1, "x"}, {"modify", "n3", "c", 2, "y"}}})
	out = append(out, c01scenario{Name: "ns-label/late-ns-env", NsLabel: true, LateNs: "n3", KeepFull: true, EnvThread: true, EnvPrefill: 1,
		History: []c01mut{{"nscreate", "n3", "", 0, ""}, {"create", "n3", "c", 1, "x"}, {"modify", "n3", "c", 2, "y"}}})
	return out
}

// c01filter: pre-emptive switches are explored at scheduling points inside the informer /
// monitor code and at the harness-level yields; blocking switches happen everywhere.
func c01filter(site string) bool {
	return strings.HasPrefix(site, "resource_informer.go:") || strings.HasPrefix(site, "monitor.go:") || strings.HasPrefix(site, "kube_events_manager.go:") ||
		strings.HasPrefix(site, "namespace_informer.go:") || strings.HasPrefix(site, "zz_verif_")
}

// c01free: environment timing costs no deviation - how far an informer lags, how long the
// hook runs, when another reader or the environment acts.
func c01free(kind, site string) bool {
	return kind == "informer-deliver" || kind == "ns-informer-deliver" || strings.HasPrefix(kind, "yield:")
}

func TestVerifC01L1(t *testing.T) {
	r := vres.New("c01l1")
	defer r.Finish()
	bound := vres.Pick(2, 3)
	r.Bound("deviation_bound", bound)
	scs := c01scenarios()
	r.Bound("scenarios", len(scs))
	shard, shards := vres.Shard()
	perScenario := map[string]any{}
	for si, sc := range scs {
		if f := os.Getenv("VERIF_SCENARIO"); f != "" && !strings.Contains(sc.Name, f) {
			continue
		}
		sc := sc
		scBound := bound
		if !vres.Thorough() {
			if sc.ThoroughOnly {
				continue
			}
			if sc.QuickBound > 0 {
				scBound = sc.QuickBound
			}
		}
		r.Count(fmt.Sprintf("bound_%d:%s", scBound, sc.Name), 1)
		ex := &vrt.Explorer{Opts: vrt.Options{Bound: scBound, MaxSteps: 5000, RecordTrace: false, Filter: c01filter}, Shard: shard, Shards: shards}
		outcomes := map[string]bool{}
		var obs *c01obs
		body := func(x *vrt.Exec) {
			obs = &c01obs{}
			c01body(sc, obs)(x)
		}
		ex.Check = func(x *vrt.Exec) {
			obs.End, obs.Panics, obs.Blocked = x.End, x.Panics, x.Blocked
			key := fmt.Sprintf("%s|%v", sc.Name, x.Choices)
			sig, what := c01check(sc, obs)
			r.Eval(1)
			r.Transition(int64(x.Steps))
			oc := fmt.Sprintf("%s|%v|%v", sc.Name, obs.Snapshot, obs.Events)
			if sig != "" {
				r.Violation(sig, key, what, map[string]any{"scenario": sc.Name, "choices": x.Choices})
				r.Outcome("V:"+sig+sc.Name, true)
				outcomes["V:"+sig] = true
				return
			}
			h := vres.Hash(oc)
			outcomes[h] = true
			r.Outcome(oc, x.Devs() > 0)
			r.State(oc)
			if x.Devs() > 0 {
				r.Sample(map[string]any{"scenario": sc.Name, "choices": fmt.Sprint(x.Choices), "deliveries_before_view": obs.K1, "deliveries_before_unlock": obs.K2, "synchronization_view": obs.Snapshot, "events": fmt.Sprint(obs.Events)})
			}
		}
		if r.Replaying() {
			// replay exactly one recorded schedule: "<scenario>|[c1 c2 ...]"
			parts := strings.SplitN(r.OnlyCase(), "|", 2)
			if len(parts) != 2 || parts[0] != sc.Name {
				continue
			}
			var choices []int
			for _, f := range strings.Fields(strings.Trim(parts[1], "[]")) {
				var c int
				fmt.Sscan(f, &c)
				choices = append(choices, c)
			}
			opts := ex.Opts
			opts.RecordTrace = true
			x := vrt.Run(&opts, choices, nil, body)
			ex.Check(x)
			r.Note("replayed %s: end=%s events=%v snapshot=%v trace=%v", sc.Name, x.End, obs.Events, obs.Snapshot, x.TraceStrings())
			continue
		}
		ex.Deadline = r.Deadline()
		ex.Explore(body)
		perScenario[sc.Name] = map[string]any{"threads": "see DESIGN", "capped": ex.Stats.Capped}
		r.Count("executions:"+sc.Name, ex.Stats.Executions)
		for d, n := range ex.Stats.ByDevs {
			r.Count(fmt.Sprintf("executions_with_%d_deviations", d), n)
		}
		r.Count("outcomes_upper_bound:"+sc.Name, int64(len(outcomes)))
		if ex.Stats.Capped != "" {
			r.Cap(sc.Name + ":" + ex.Stats.Capped)
		}
		if len(outcomes) <= 1 && ex.Stats.Executions > 20 {
			r.Note("vacuous scenario=%s (one outcome from %d executions)", sc.Name, ex.Stats.Executions)
		}
		_ = si
		if r.Expired() {
			break
		}
	}
	r.Bound("per_scenario", perScenario)
}
