package kubeeventsmanager

// C08 part r — the same rule ("hooks are triggered only by meaningful changes") through REAL
// client-go informers started by the repository's own factory, so that what the factory does to
// the objects on their way in (list options, transforms, shared use) is part of what is checked;
// the other C08 part calls the informer's handler directly and the scheduler-controlled checks
// replace the factory by the hub. Free running; a sentinel object is the barrier that makes
// every step fully delivered before the next one (per-handler ordered delivery).
// Enumerated: jqFilter {none, .data} x keepFullObjectsInMemory x objects with / without
// metadata.managedFields (every object of a real API server has them) x a scripted history:
// start (re-delivery of the unchanged pre-existing objects must trigger nothing), a change
// outside the projection, a change inside it, a deletion.

import (
	"context"
	"fmt"
	"strings"
	"sync"
	"testing"
	"time"

	"github.com/deckhouse/deckhouse/pkg/log"
	metav1 "k8s.io/apimachinery/pkg/apis/meta/v1"
	"k8s.io/apimachinery/pkg/apis/meta/v1/unstructured"

	kemtypes "github.com/flant/shell-operator/pkg/kube_events_manager/types"
	"github.com/flant/shell-operator/pkg/zzverif/vfx"
	"github.com/flant/shell-operator/pkg/zzverif/vres"
)

func c08rObj(name string, ver int, label string, managed bool) *unstructured.Unstructured {
	o := c01obj("n1", name, ver, "p")
	o.SetLabels(map[string]string{"l": label})
	if managed {
		md := o.Object["metadata"].(map[string]any)
		md["managedFields"] = []any{map[string]any{"manager": "kubectl", "operation": "Update", "apiVersion": "v1", "fieldsType": "FieldsV1",
			"fieldsV1": map[string]any{"f:data": map[string]any{"f:v": map[string]any{}}}}}
	}
	return o
}

func c08rRun(filter string, keepFull, managed bool) (sig, what, outcome string) {
	client := vfx.NewMiniCluster()
	dyn := client.Dynamic().Resource(c01gvr).Namespace("n1")
	ctx, cancel := context.WithCancel(context.Background())
	defer cancel()
	for _, n := range []string{"a", "b", cfSentinel} {
		if _, err := dyn.Create(ctx, c08rObj(n, 0, "x", managed), metav1.CreateOptions{}); err != nil {
			panic(err)
		}
	}
	mgr := NewKubeEventsManager(ctx, client, log.NewNop())
	mgr.WithMetricStorage(vfx.NopStorage{})
	mc := &MonitorConfig{Kind: "ConfigMap", ApiVersion: "v1", JqFilter: filter, KeepFullObjectsInMemory: keepFull}
	mc.Metadata.MonitorId = "mon"
	mc.Metadata.DebugName = "c08r"
	mc.Metadata.LogLabels = map[string]string{}
	mc.Metadata.MetricLabels = map[string]string{}
	mc.Logger = log.NewNop()
	mc.WithEventTypes(nil)
	mc.NamespaceSelector = &kemtypes.NamespaceSelector{NameSelector: &kemtypes.NameSelector{MatchNames: []string{"n1"}}}
	var mu sync.Mutex
	var events []string
	sentinelSeen := 0
	done := make(chan struct{})
	var consumer sync.WaitGroup
	consumer.Add(1)
	go func() {
		defer consumer.Done()
		for {
			select {
			case ev := <-mgr.Ch():
				mu.Lock()
				for i, o := range ev.Objects {
					ty := ""
					if i < len(ev.WatchEvents) {
						ty = string(ev.WatchEvents[i])
					}
					parts := strings.Split(o.Metadata.ResourceId, "/")
					name := parts[len(parts)-1]
					if name == cfSentinel {
						sentinelSeen++
						continue
					}
					events = append(events, ty+":"+name)
				}
				mu.Unlock()
			case <-done:
				return
			}
		}
	}()
	defer func() {
		close(done)
		consumer.Wait()
	}()
	if err := mgr.AddMonitor(mc); err != nil {
		return "C08r scenario", err.Error(), ""
	}
	mgr.StartMonitor("mon")
	mgr.GetMonitor("mon").EnableKubeEventCb()
	sver := 0
	barrier := func() bool {
		// a change of the sentinel inside every projection; repeated until seen (the fake tracker
		// does not replay changes made between an informer's LIST and its WATCH)
		start := time.Now()
		for {
			mu.Lock()
			before := sentinelSeen
			mu.Unlock()
			sver++
			if _, err := dyn.Update(ctx, c08rObj(cfSentinel, sver, "x", managed), metav1.UpdateOptions{}); err != nil {
				panic(err)
			}
			dl := time.Now().Add(5 * time.Millisecond)
			for time.Now().Before(dl) {
				mu.Lock()
				ok := sentinelSeen > before
				mu.Unlock()
				if ok {
					return true
				}
				time.Sleep(20 * time.Microsecond)
			}
			if time.Since(start) > 20*time.Second {
				return false
			}
		}
	}
	var want []string
	step := func(name string, f func(), expect ...string) (string, string) {
		if f != nil {
			f()
		}
		if !barrier() {
			return "skip", "barrier timed out"
		}
		want = append(want, expect...)
		mu.Lock()
		got := strings.Join(events, " ")
		mu.Unlock()
		if got != strings.Join(want, " ") {
			kind := "spurious-trigger"
			if len(strings.Fields(got)) < len(want) {
				kind = "missing-trigger"
			}
			return "C08r " + kind + " step=" + name, fmt.Sprintf("jqFilter %q keepFull %v managedFields %v: after step %q the hook was triggered by [%s], want [%s]", filter, keepFull, managed, name, got, strings.Join(want, " "))
		}
		return "", ""
	}
	// start: the informer re-delivers the objects the monitor has listed itself: nothing to report
	if s, w := step("start", nil); s != "" {
		return s, w, ""
	}
	// a change outside the .data projection (a label): meaningful only without a filter
	var exp []string
	if filter == "" {
		exp = []string{"Modified:a"}
	}
	if s, w := step("label-change", func() {
		_, _ = dyn.Update(ctx, c08rObj("a", 0, "y", managed), metav1.UpdateOptions{})
	}, exp...); s != "" {
		return s, w, ""
	}
	if s, w := step("data-change", func() {
		_, _ = dyn.Update(ctx, c08rObj("a", 1, "y", managed), metav1.UpdateOptions{})
	}, "Modified:a"); s != "" {
		return s, w, ""
	}
	if s, w := step("create", func() {
		_, _ = dyn.Create(ctx, c08rObj("c", 0, "x", managed), metav1.CreateOptions{})
	}, "Added:c"); s != "" {
		return s, w, ""
	}
	if s, w := step("delete", func() {
		_ = dyn.Delete(ctx, "b", metav1.DeleteOptions{})
	}, "Deleted:b"); s != "" {
		return s, w, ""
	}
	_ = mgr.StopMonitor("mon")
	return "", "", strings.Join(want, " ")
}

func TestVerifC08r(t *testing.T) {
	r := vres.New("c08r")
	defer r.Finish()
	saved := DefaultSyncTime
	DefaultSyncTime = 200 * time.Microsecond
	defer func() { DefaultSyncTime = saved }()
	var ord int64
	for _, filter := range []string{"", ".data", "{v: .data.v}"} {
		for _, keep := range []bool{true, false} {
			for _, managed := range []bool{false, true} {
				ord++
				if !(vres.Mine(ord) || r.Replaying()) {
					continue
				}
				key := fmt.Sprintf("filter=%q|keepFull=%v|managedFields=%v", filter, keep, managed)
				if !r.Want(key) {
					continue
				}
				DefaultFactoryStore.Reset()
				sig, what, oc := c08rRun(filter, keep, managed)
				if sig == "skip" {
					r.Cap("real informer barrier timed out (case skipped): " + key)
					continue
				}
				r.Eval(1)
				r.Transition(5)
				if sig != "" {
					r.Violation(sig, key, what, nil)
					r.Outcome("V:"+sig, true)
					continue
				}
				r.State(key)
				r.Outcome(key+"|"+oc, true)
				r.Sample(map[string]any{"case": key, "triggers": oc})
			}
		}
	}
	cfSettle(0)
}
