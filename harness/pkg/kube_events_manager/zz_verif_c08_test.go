package kubeeventsmanager

// C08 — hooks are triggered only by meaningful changes (event type and jqFilter).
// The real resourceInformer.handleWatchEvent is driven sequentially with every event
// sequence up to length 3 over (Added|Modified|Deleted) x a pool of object states, for
// every jq filter of a small grammar (none, identity, object-, array-, scalar-, null-valued,
// multi-output, constructed objects) x every subset of enabled event types x
// keepFullObjectsInMemory. Reference: projection computed with gojq directly (all outputs);
// event iff type enabled and (Deleted or object unknown or projection changed); the cache
// (what snapshots show) always follows the last delivered state.

import (
	"k8s.io/client-go/tools/cache"
	"encoding/json"
	"fmt"
	"sort"
	"strings"
	"testing"

	"github.com/deckhouse/deckhouse/pkg/log"
	"github.com/itchyny/gojq"
	"k8s.io/apimachinery/pkg/apis/meta/v1/unstructured"

	kemtypes "github.com/flant/shell-operator/pkg/kube_events_manager/types"
	"github.com/flant/shell-operator/pkg/zzverif/vfx"
	"github.com/flant/shell-operator/pkg/zzverif/vres"
)

func init() { log.SetDefault(log.NewNop()) }

func c08state(i int) map[string]any {
	data := map[string]any{"a": "1", "b": "x"}
	spec := map[string]any{"l": []any{int64(1), int64(2)}}
	obj := map[string]any{
		"apiVersion": "v1", "kind": "ConfigMap",
		"metadata": map[string]any{"name": "o", "namespace": "ns", "resourceVersion": fmt.Sprint(100 + i), "uid": "uid-1",
			"managedFields": []any{map[string]any{"manager": "kubectl", "operation": "Update"}}},
		"data":     data, "spec": spec,
	}
	switch i {
	case 1:
		data["b"] = "y"
	case 2:
		data["a"] = "2"
	case 3:
		spec["l"] = []any{int64(1), int64(3)}
	case 4:
		obj["status"] = map[string]any{"extra": "z"}
	case 5:
		delete(data, "a")
	case 6:
		// the same content under another uid (object re-created with identical content)
		obj["metadata"].(map[string]any)["uid"] = "uid-2"
	case 7:
		// only metadata.managedFields differs (another field manager touched the object)
		obj["metadata"].(map[string]any)["managedFields"] = []any{map[string]any{"manager": "kubectl", "operation": "Update"}, map[string]any{"manager": "helm", "operation": "Apply"}}
	}
	return obj
}

// note: resourceVersion differs between states, so "no filter" and "." see every state as
// different, as they must.

var c08filters = []string{
	"", ".", ".data", "{x: .data.a}", "{(.data.b): .data.a}", ".data.a", "[.data.a, .data.b]",
	".data.a // null", ".data.missing", ".data.a | tostring", ".spec.l[]", `.spec.l[] | {("k" + tostring): 1}`, "empty",
	// a projection of metadata.managedFields only
	"{mf: [.metadata.managedFields[]?.manager]}",
}

type c08proj struct {
	all    string // canonical JSON list of all outputs
	merged string // canonical JSON of the merge of object-valued outputs
	single bool   // exactly one output
	nonObj bool   // some output is not an object
	first  any
}

func c08project(filter string, obj map[string]any) c08proj {
	if filter == "" {
		b, _ := json.Marshal(obj)
		return c08proj{all: string(b), merged: string(b)}
	}
	q, err := gojq.Parse(filter)
	if err != nil {
		panic(err)
	}
	// gojq mutates numbers: run on a JSON round trip
	b, _ := json.Marshal(obj)
	var in map[string]any
	_ = json.Unmarshal(b, &in)
	it := q.Run(in)
	var outs []any
	merged := map[string]any{}
	p := c08proj{}
	for {
		v, ok := it.Next()
		if !ok {
			break
		}
		if e, isErr := v.(error); isErr {
			panic(e)
		}
		outs = append(outs, v)
		if m, isMap := v.(map[string]any); isMap {
			for k, x := range m {
				merged[k] = x
			}
		} else {
			p.nonObj = true
		}
	}
	ab, _ := json.Marshal(outs)
	mb, _ := json.Marshal(merged)
	p.all, p.merged = string(ab), string(mb)
	p.single = len(outs) == 1
	if p.single {
		p.first = outs[0]
	}
	return p
}

type c08ev struct {
	typ   kemtypes.WatchEventType
	state int
	// initial: an Added delivered as part of an informer's initial list (isInInitialList=true);
	// it means exactly what any other Added means. For a Deleted: the deletion is delivered as a
	// tombstone (cache.DeletedFinalStateUnknown, by value, as client-go does after a relist that
	// found the object gone); it means exactly what any other Deleted means.
	initial bool
}

func (e c08ev) String() string {
	if e.initial && e.typ == kemtypes.WatchEventDeleted {
		return fmt.Sprintf("%s-tombstone(s%d)", e.typ, e.state)
	}
	if e.initial {
		return fmt.Sprintf("%s-initial(s%d)", e.typ, e.state)
	}
	return fmt.Sprintf("%s(s%d)", e.typ, e.state)
}

type c08cfg struct {
	filter   string
	types    []kemtypes.WatchEventType
	keepFull bool
}

func c08run(cfg c08cfg, seq []c08ev) (sig, what, outcome string) {
	mon := &MonitorConfig{Kind: "ConfigMap", ApiVersion: "v1", JqFilter: cfg.filter, KeepFullObjectsInMemory: cfg.keepFull}
	mon.Metadata.MonitorId = "m"
	mon.Metadata.DebugName = "c08"
	mon.Metadata.MetricLabels = map[string]string{}
	mon.Metadata.LogLabels = map[string]string{}
	mon.EventTypes = cfg.types
	var got []string
	var lastFR any
	inf := newResourceInformer("", "", &resourceInformerConfig{mstor: vfx.NopStorage{}, monitor: mon, logger: log.NewNop(),
		eventCb: func(ev kemtypes.KubeEvent) {
			s := "?"
			if len(ev.WatchEvents) == 1 && len(ev.Objects) == 1 {
				rv := "-"
				if ev.Objects[0].Object != nil {
					rv = ev.Objects[0].Object.GetResourceVersion()
				}
				s = fmt.Sprintf("%s:%s:full=%v", ev.WatchEvents[0], rv, ev.Objects[0].Object != nil)
				lastFR = ev.Objects[0].FilterResult
			}
			got = append(got, s)
		}})
	inf.enableKubeEventCb()
	defer func() {
		if r := recover(); r != nil {
			sig, what = "C08 panic", fmt.Sprint(r)
		}
	}()
	enabled := map[kemtypes.WatchEventType]bool{}
	for _, t := range cfg.types {
		enabled[t] = true
	}
	var wantMain, wantAlt []string
	known := false
	cachedMain, cachedAlt := "", ""
	cachedState := -1
	usesNonObj := false
	for i, ev := range seq {
		obj := c08state(ev.state)
		u := &unstructured.Unstructured{Object: obj}
		p := c08project(cfg.filter, obj)
		usesNonObj = usesNonObj || p.nonObj
		rv := fmt.Sprint(100 + ev.state)
		if !cfg.keepFull {
			rv = "-"
		}
		line := fmt.Sprintf("%s:%s:full=%v", ev.typ, rv, cfg.keepFull)
		before := len(got)
		switch ev.typ {
		case kemtypes.WatchEventAdded:
			inf.OnAdd(u, ev.initial)
		case kemtypes.WatchEventModified:
			inf.OnUpdate(nil, u)
		case kemtypes.WatchEventDeleted:
			if ev.initial {
				inf.OnDelete(cache.DeletedFinalStateUnknown{Key: "ns/o", Obj: u})
			} else {
				inf.OnDelete(u)
			}
		}
		// an event handed to the hook carries the projection of the very object it is about
		if len(got) > before && cfg.filter != "" && p.single && !p.nonObj {
			var a, b any
			switch x := lastFR.(type) {
			case string:
				_ = json.Unmarshal([]byte(x), &a)
			default:
				raw, _ := json.Marshal(x)
				_ = json.Unmarshal(raw, &a)
			}
			raw, _ := json.Marshal(p.first)
			_ = json.Unmarshal(raw, &b)
			fa, _ := json.Marshal(a)
			fb, _ := json.Marshal(b)
			if string(fa) != string(fb) {
				return "C08 event-filterResult type=" + string(ev.typ), fmt.Sprintf("step %d %s filter %q: the event carries filterResult %s, jq of the delivered object gives %s", i, ev, cfg.filter, fa, fb), ""
			}
		}
		if ev.typ == kemtypes.WatchEventDeleted {
			if enabled[ev.typ] {
				wantMain = append(wantMain, line)
				wantAlt = append(wantAlt, line)
			}
			known, cachedState = false, -1
		} else {
			if enabled[ev.typ] && (!known || p.all != cachedMain) {
				wantMain = append(wantMain, line)
			}
			if enabled[ev.typ] && (!known || p.merged != cachedAlt) {
				wantAlt = append(wantAlt, line)
			}
			known, cachedMain, cachedAlt, cachedState = true, p.all, p.merged, ev.state
		}
		// what snapshots show
		snap := inf.getCachedObjects()
		if cachedState < 0 {
			if len(snap) != 0 {
				return "C08 snapshot-after-delete", fmt.Sprintf("step %d %s: snapshot still holds %d objects", i, ev, len(snap)), ""
			}
		} else {
			if len(snap) != 1 {
				return "C08 snapshot-size", fmt.Sprintf("step %d %s: snapshot holds %d objects, want 1", i, ev, len(snap)), ""
			}
			m := snap[0].Map()
			if cfg.keepFull {
				o, _ := m["object"].(*unstructured.Unstructured)
				if o == nil || o.GetResourceVersion() != fmt.Sprint(100+cachedState) {
					return "C08 snapshot-stale", fmt.Sprintf("step %d %s: snapshot does not show the last delivered state s%d (a suppressed change must still update it)", i, ev, cachedState), ""
				}
			} else if _, has := m["object"]; has {
				return "C08 snapshot-has-object", fmt.Sprintf("step %d %s: full object kept although keepFullObjectsInMemory is off", i, ev), ""
			}
			if cfg.filter != "" && p.single {
				fr, _ := json.Marshal(m["filterResult"])
				want, _ := json.Marshal(p.first)
				var a, b any
				_ = json.Unmarshal(fr, &a)
				_ = json.Unmarshal(want, &b)
				fa, _ := json.Marshal(a)
				fb, _ := json.Marshal(b)
				if string(fa) != string(fb) {
					if p.nonObj && string(fa) == p.merged {
						return "C08 non-object-jq-result-ignored", fmt.Sprintf("filter %q on s%d: filterResult %s, jq gives %s", cfg.filter, cachedState, fa, fb), ""
					}
					return "C08 snapshot-filterResult", fmt.Sprintf("step %d %s filter %q: snapshot filterResult %s, want %s", i, ev, cfg.filter, fa, fb), ""
				}
			}
		}
	}
	g, wm, wa := strings.Join(got, " "), strings.Join(wantMain, " "), strings.Join(wantAlt, " ")
	if g != wm {
		if usesNonObj && g == wa {
			return "C08 non-object-jq-result-ignored", fmt.Sprintf("filter %q, events %v: hook triggered by [%s], want [%s] (the non-object jq result never counts as changed)", cfg.filter, seq, g, wm), ""
		}
		kind := "spurious-trigger"
		if len(got) < len(wantMain) {
			kind = "missing-trigger"
		}
		return "C08 " + kind, fmt.Sprintf("filter %q types %v keepFull %v, events %v: hook triggered by [%s], want [%s]", cfg.filter, cfg.types, cfg.keepFull, seq, g, wm), ""
	}
	return "", "", g
}

func TestVerifC08(t *testing.T) {
	r := vres.New("c08")
	defer r.Finish()
	states := []int{0, 1, 2, 4, 6, 7}
	if vres.Thorough() {
		states = []int{0, 1, 2, 3, 4, 5, 6, 7}
	}
	maxLen := 3
	var alpha []c08ev
	for _, ty := range []kemtypes.WatchEventType{kemtypes.WatchEventAdded, kemtypes.WatchEventModified, kemtypes.WatchEventDeleted} {
		for _, s := range states {
			alpha = append(alpha, c08ev{ty, s, false})
		}
	}
	// Added as part of an initial list: two states in the quick tier, all in the thorough tier
	for _, st := range states {
		if vres.Thorough() || st == 0 || st == 2 {
			alpha = append(alpha, c08ev{kemtypes.WatchEventAdded, st, true})
		}
	}
	// Deleted delivered as a tombstone: the cached state in the quick tier, every state in the thorough tier
	for _, st := range states {
		if vres.Thorough() || st == 0 {
			alpha = append(alpha, c08ev{kemtypes.WatchEventDeleted, st, true})
		}
	}
	// multi-output filters need the list-changing state even in the quick tier
	alphaL := append([]c08ev{}, alpha...)
	if !vres.Thorough() {
		alphaL = append(alphaL, c08ev{kemtypes.WatchEventAdded, 3, false}, c08ev{kemtypes.WatchEventModified, 3, false})
	}
	var subsets [][]kemtypes.WatchEventType
	all := []kemtypes.WatchEventType{kemtypes.WatchEventAdded, kemtypes.WatchEventModified, kemtypes.WatchEventDeleted}
	for m := 0; m < 8; m++ {
		var s []kemtypes.WatchEventType
		for i, ty := range all {
			if m&(1<<i) != 0 {
				s = append(s, ty)
			}
		}
		subsets = append(subsets, s)
	}
	r.Bound("filters", c08filters)
	r.Bound("object_states", len(states))
	r.Bound("max_events", maxLen)
	r.Bound("event_type_subsets", 8)
	var ord int64
	for _, f := range c08filters {
		al := alpha
		if strings.Contains(f, ".spec.l") {
			al = alphaL
		}
		for n := 1; n <= maxLen; n++ {
			idx := make([]int, n)
			for {
				seq := make([]c08ev, n)
				names := make([]string, n)
				for i := range idx {
					seq[i] = al[idx[i]]
					names[i] = seq[i].String()
				}
				// quick tier: every sequence of 1 and 2 deliveries, every second one of 3
				if n == 3 && !vres.Thorough() && (idx[0]+idx[1]+idx[2])%2 == 1 {
					goto next
				}
				for si, sub := range subsets {
					for _, keep := range []bool{true, false} {
						ord++
						if !(vres.Mine(ord) || r.Replaying()) {
							continue
						}
						key := fmt.Sprintf("f=%q|types=%d|keep=%v|%s", f, si, keep, strings.Join(names, ","))
						if !r.Want(key) {
							continue
						}
						sig, what, outcome := c08run(c08cfg{f, sub, keep}, seq)
						r.Eval(1)
						r.Transition(int64(n))
						if sig != "" {
							r.Violation(sig, key, what, nil)
							r.Outcome("V:"+sig, true)
							continue
						}
						r.State(f + "|" + outcome)
						r.Outcome(fmt.Sprintf("%s|%d|%s", f, si, outcome), n > 1)
						r.Sample(map[string]any{"jqFilter": f, "executeHookOnEvent": sub, "keepFullObjectsInMemory": keep, "events": names, "triggers": outcome})
					}
				}
			next:
				i := n - 1
				for i >= 0 {
					idx[i]++
					if idx[i] < len(al) {
						break
					}
					idx[i] = 0
					i--
				}
				if i < 0 || r.Expired() {
					break
				}
			}
		}
	}
	_ = sort.Strings
}
