package kubeeventsmanager

// Free-running race-detector pass over the code that C01 / C02b explore under the controlled
// scheduler (DESIGN.md §2.3, §8): the same actors - informer deliveries, environment,
// Synchronization (Snapshot; EnableKubeEventCb), an extra snapshot reader, the event-channel
// consumer, a namespace appearing at run time, monitor stop - run as real goroutines against
// REAL client-go informers with the binary built with -race. It decides nothing about the
// property; it cross-checks that every unsynchronised access in this code is one of the listed
// scheduling points (vres.ReportRaces).

import (
	"context"
	"fmt"
	"sync"
	"testing"
	"time"

	"github.com/deckhouse/deckhouse/pkg/log"
	v1 "k8s.io/api/core/v1"
	metav1 "k8s.io/apimachinery/pkg/apis/meta/v1"

	kemtypes "github.com/flant/shell-operator/pkg/kube_events_manager/types"
	"github.com/flant/shell-operator/pkg/zzverif/vfx"
	"github.com/flant/shell-operator/pkg/zzverif/vres"
)

func raceKEMOnce(variant int) {
	client := vfx.NewMiniCluster()
	dyn := client.Dynamic()
	ctx, cancel := context.WithCancel(context.Background())
	defer cancel()
	mkns := func(ns string) *v1.Namespace {
		return &v1.Namespace{ObjectMeta: metav1.ObjectMeta{Name: ns, Labels: map[string]string{"watch": "yes"}}}
	}
	for _, ns := range []string{"n1", "n2"} {
		_, _ = client.CoreV1().Namespaces().Create(ctx, mkns(ns), metav1.CreateOptions{})
		for _, name := range []string{"a", "b"} {
			if _, err := dyn.Resource(c01gvr).Namespace(ns).Create(ctx, c01obj(ns, name, 0, "p"), metav1.CreateOptions{}); err != nil {
				panic(err)
			}
		}
	}
	mgr := NewKubeEventsManager(ctx, client, log.NewNop())
	mgr.WithMetricStorage(vfx.NopStorage{})
	mc := &MonitorConfig{Kind: "ConfigMap", ApiVersion: "v1", KeepFullObjectsInMemory: variant%2 == 0}
	if variant%4 >= 2 {
		mc.JqFilter = ".data.v"
	}
	mc.Metadata.MonitorId = "mon"
	mc.Metadata.DebugName = "race"
	mc.Metadata.LogLabels = map[string]string{}
	mc.Metadata.MetricLabels = map[string]string{}
	mc.Logger = log.NewNop()
	mc.WithEventTypes(nil)
	switch variant % 3 {
	case 1:
		mc.NamespaceSelector = &kemtypes.NamespaceSelector{LabelSelector: &metav1.LabelSelector{MatchLabels: map[string]string{"watch": "yes"}}}
	case 2:
		mc.NamespaceSelector = &kemtypes.NamespaceSelector{NameSelector: &kemtypes.NameSelector{MatchNames: []string{"n1", "n2"}}}
	}
	if err := mgr.AddMonitor(mc); err != nil {
		panic(err)
	}
	mgr.StartMonitor("mon")
	mon := mgr.GetMonitor("mon")

	done := make(chan struct{})
	var wg, consumer sync.WaitGroup
	consumer.Add(1)
	go func() {
		defer consumer.Done()
		for {
			select {
			case <-mgr.Ch():
			case <-done:
				return
			}
		}
	}()
	wg.Add(3)
	go func() { // environment
		defer wg.Done()
		for ver := 1; ver <= 3; ver++ {
			for _, ns := range []string{"n1", "n2"} {
				_, _ = dyn.Resource(c01gvr).Namespace(ns).Update(ctx, c01obj(ns, "a", ver, "p"), metav1.UpdateOptions{})
			}
			if ver == 1 {
				_, _ = client.CoreV1().Namespaces().Create(ctx, mkns("n3"), metav1.CreateOptions{})
				_, _ = dyn.Resource(c01gvr).Namespace("n3").Create(ctx, c01obj("n3", "a", 0, "p"), metav1.CreateOptions{})
			}
			if ver == 2 {
				_ = dyn.Resource(c01gvr).Namespace("n1").Delete(ctx, "b", metav1.DeleteOptions{})
				_, _ = dyn.Resource(c01gvr).Namespace("n3").Update(ctx, c01obj("n3", "a", 1, "p"), metav1.UpdateOptions{})
			}
			time.Sleep(time.Duration(variant%5) * 50 * time.Microsecond)
		}
	}()
	go func() { // the Synchronization of the binding
		defer wg.Done()
		_ = mon.Snapshot()
		time.Sleep(time.Duration(variant%7) * 40 * time.Microsecond)
		mon.EnableKubeEventCb()
	}()
	go func() { // another reader of the same snapshot
		defer wg.Done()
		for i := 0; i < 3; i++ {
			_ = mon.Snapshot()
			time.Sleep(time.Duration(variant%3) * 30 * time.Microsecond)
		}
	}()
	wg.Wait()
	time.Sleep(3 * time.Millisecond) // let the informers deliver
	_ = mon.Snapshot()
	if variant%2 == 0 {
		_ = mgr.StopMonitor("mon")
	} else {
		mgr.PauseHandleEvents()
	}
	cancel()
	close(done)
	consumer.Wait()
	time.Sleep(time.Millisecond)
}

func TestVerifRaceKEM(t *testing.T) {
	r := vres.New("kemrace")
	defer r.Finish()
	saved := DefaultSyncTime
	DefaultSyncTime = 200 * time.Microsecond
	defer func() { DefaultSyncTime = saved }()
	iters := vres.Pick(36, 360)
	r.Bound("free_running_iterations", iters)
	var n int64
	for it := 0; it < iters && !r.Expired(); it++ {
		if !vres.Mine(int64(it)) {
			continue
		}
		raceKEMOnce(it)
		n++
	}
	cfSettle(0)
	r.Count("race_pass_iterations", n)
	r.Note("free-running -race pass over kube events manager / monitor / informers with real client-go informers: %s", fmt.Sprint(n, " iterations in this shard"))
	vres.ReportRaces(r)
}
