package kubeeventsmanager

// C02 — Synchronization objects and snapshots equal the set of matching objects.
// Part a: every cluster history up to a depth (create / modify / delete of objects in three
// namespaces, a labelled namespace deleted, a labelled namespace appearing) with every change
// fully delivered before the next one, for every monitor configuration (all namespaces |
// namespace.nameSelector | namespace.labelSelector) x (no names | nameSelector.matchNames) x
// (no filter | object-valued jqFilter) x keepFullObjectsInMemory: after every step the real
// Snapshot() must equal the reference computed from the cluster - same elements, each once,
// sorted by namespace/name, with the binding's projection - and a fresh monitor built on the
// same cluster must return the same snapshot (restart).
// Part b: the start-up window: environment changes interleaved (scheduler) with AddMonitor's
// LIST and StartMonitor's LIST; once quiet, the snapshot must equal the cluster.

import (
	"context"
	"encoding/json"
	"fmt"
	"sort"
	"strings"
	"testing"
	"time"

	"github.com/deckhouse/deckhouse/pkg/log"
	v1 "k8s.io/api/core/v1"
	metav1 "k8s.io/apimachinery/pkg/apis/meta/v1"
	"k8s.io/apimachinery/pkg/apis/meta/v1/unstructured"

	klient "github.com/flant/kube-client/client"
	kemtypes "github.com/flant/shell-operator/pkg/kube_events_manager/types"
	"github.com/flant/shell-operator/pkg/zzverif/vfx"
	"github.com/flant/shell-operator/pkg/zzverif/vres"
	"github.com/flant/shell-operator/pkg/zzverif/vrt"
)

type c02cfg struct {
	NsMode   string // all | names | labels
	Names    bool   // nameSelector.matchNames [a]
	Jq       bool
	KeepFull bool
}

func (c c02cfg) String() string {
	return fmt.Sprintf("ns=%s/names=%v/jq=%v/keepFull=%v", c.NsMode, c.Names, c.Jq, c.KeepFull)
}

func (c c02cfg) monitorConfig(id string) *MonitorConfig {
	mc := &MonitorConfig{Kind: "ConfigMap", ApiVersion: "v1", KeepFullObjectsInMemory: c.KeepFull}
	if c.Jq {
		mc.JqFilter = "{p: .data.v}"
	}
	mc.Metadata.MonitorId = id
	mc.Metadata.DebugName = "c02"
	mc.Metadata.LogLabels = map[string]string{}
	mc.Metadata.MetricLabels = map[string]string{}
	mc.Logger = log.NewNop()
	mc.WithEventTypes(nil)
	switch c.NsMode {
	case "names":
		mc.NamespaceSelector = &kemtypes.NamespaceSelector{NameSelector: &kemtypes.NameSelector{MatchNames: []string{"n1"}}}
	case "names2":
		// several informers in one monitor, declared in non-alphabetical order
		mc.NamespaceSelector = &kemtypes.NamespaceSelector{NameSelector: &kemtypes.NameSelector{MatchNames: []string{"n3", "n2", "n1"}}}
	case "labels":
		mc.NamespaceSelector = &kemtypes.NamespaceSelector{LabelSelector: &metav1.LabelSelector{MatchLabels: map[string]string{"watch": "yes"}}}
	}
	if c.Names {
		mc.NameSelector = &kemtypes.NameSelector{MatchNames: []string{"a"}}
	}
	if c.NsMode == "field" {
		// several names AND a field selector: one informer per name, each with the binding's own
		// field selector plus its name (namespace n1 chosen by field, all namespaces watched)
		mc.NameSelector = &kemtypes.NameSelector{MatchNames: []string{"b", "a"}}
		mc.FieldSelector = &kemtypes.FieldSelector{MatchExpressions: []kemtypes.FieldSelectorRequirement{{Field: "metadata.namespace", Operator: "Equals", Value: "n1"}}}
	}
	return mc
}

type c02op struct {
	kind string // create modify delete delns addns
	ns   string
	name string
}

func (o c02op) String() string {
	if o.kind == "delns" || o.kind == "addns" {
		return o.kind + "(" + o.ns + ")"
	}
	return fmt.Sprintf("%s(%s/%s)", o.kind, o.ns, o.name)
}

// c02world is the cluster as the environment knows it.
type c02world struct {
	client *klient.Client
	hub    *ZZHub
	vers   map[string]int  // ns/name -> version
	ns     map[string]bool // namespace -> labelled
	nextV  int
	outside map[string]string // ns/name -> value of data.p, a field outside the binding's projection
	nextP  int
}

func newC02world(hub *ZZHub) *c02world {
	w := &c02world{client: vfx.NewMiniCluster(), hub: hub, vers: map[string]int{}, ns: map[string]bool{}, outside: map[string]string{}}
	for _, n := range []string{"n1", "n2"} {
		w.addNs(n, false)
	}
	return w
}

func (w *c02world) addNs(name string, notify bool) {
	n := &v1.Namespace{ObjectMeta: metav1.ObjectMeta{Name: name, Labels: map[string]string{"watch": "yes"}}}
	_, _ = w.client.CoreV1().Namespaces().Create(context.TODO(), n, metav1.CreateOptions{})
	w.ns[name] = true
	if notify {
		w.hub.NotifyNs("add", n)
	}
}

func (w *c02world) enabled(o c02op) bool {
	_, exists := w.vers[o.ns+"/"+o.name]
	switch o.kind {
	case "create":
		return w.ns[o.ns] && !exists
	case "modify", "delete", "touch":
		return exists
	case "delns":
		return w.ns[o.ns]
	case "addns":
		return !w.ns[o.ns]
	}
	return false
}

func (w *c02world) apply(o c02op) {
	ctx := context.TODO()
	dyn := w.client.Dynamic().Resource(c01gvr)
	switch o.kind {
	case "create":
		w.nextV++
		obj := c01obj(o.ns, o.name, w.nextV, "x")
		if _, err := dyn.Namespace(o.ns).Create(ctx, obj, metav1.CreateOptions{}); err != nil {
			panic(err)
		}
		w.vers[o.ns+"/"+o.name] = w.nextV
		w.outside[o.ns+"/"+o.name] = "x"
		w.hub.Notify(c01gvr, "add", nil, obj)
	case "modify":
		w.nextV++
		old, err := dyn.Namespace(o.ns).Get(ctx, o.name, metav1.GetOptions{})
		if err != nil {
			panic(err)
		}
		obj := c01obj(o.ns, o.name, w.nextV, "x")
		if _, err := dyn.Namespace(o.ns).Update(ctx, obj, metav1.UpdateOptions{}); err != nil {
			panic(err)
		}
		w.vers[o.ns+"/"+o.name] = w.nextV
		w.outside[o.ns+"/"+o.name] = "x"
		w.hub.Notify(c01gvr, "update", old, obj)
	case "touch":
		// a change outside the binding's projection ({p: .data.v}): only data.p changes
		w.nextP++
		old, err := dyn.Namespace(o.ns).Get(ctx, o.name, metav1.GetOptions{})
		if err != nil {
			panic(err)
		}
		val := fmt.Sprintf("t%d", w.nextP)
		obj := c01obj(o.ns, o.name, w.vers[o.ns+"/"+o.name], val)
		if _, err := dyn.Namespace(o.ns).Update(ctx, obj, metav1.UpdateOptions{}); err != nil {
			panic(err)
		}
		w.outside[o.ns+"/"+o.name] = val
		w.hub.Notify(c01gvr, "update", old, obj)
	case "delete":
		old, err := dyn.Namespace(o.ns).Get(ctx, o.name, metav1.GetOptions{})
		if err != nil {
			panic(err)
		}
		if err := dyn.Namespace(o.ns).Delete(ctx, o.name, metav1.DeleteOptions{}); err != nil {
			panic(err)
		}
		delete(w.vers, o.ns+"/"+o.name)
		delete(w.outside, o.ns+"/"+o.name)
		w.hub.Notify(c01gvr, "delete", nil, old)
	case "delns":
		// a namespace goes away with everything in it
		for id := range w.vers {
			if strings.HasPrefix(id, o.ns+"/") {
				w.apply(c02op{"delete", o.ns, strings.TrimPrefix(id, o.ns+"/")})
			}
		}
		n, _ := w.client.CoreV1().Namespaces().Get(ctx, o.ns, metav1.GetOptions{})
		_ = w.client.CoreV1().Namespaces().Delete(ctx, o.ns, metav1.DeleteOptions{})
		delete(w.ns, o.ns)
		if n != nil {
			w.hub.NotifyNs("delete", n)
		}
	case "addns":
		w.addNs(o.ns, true)
	}
}

// reference snapshot: "ns/name:v<version>" in order
func (w *c02world) reference(c c02cfg) []string {
	var ids []string
	for id := range w.vers {
		parts := strings.SplitN(id, "/", 2)
		if c.NsMode == "names" && parts[0] != "n1" {
			continue
		}
		// names2 names all three namespaces: everything matches
		if c.NsMode == "labels" && !w.ns[parts[0]] {
			continue
		}
		if c.Names && parts[1] != "a" {
			continue
		}
		if c.NsMode == "field" && (parts[0] != "n1" || (parts[1] != "a" && parts[1] != "b")) {
			continue
		}
		ids = append(ids, id)
	}
	sort.Slice(ids, func(i, j int) bool {
		a, b := strings.SplitN(ids[i], "/", 2), strings.SplitN(ids[j], "/", 2)
		if a[0] != b[0] {
			return a[0] < b[0]
		}
		return a[1] < b[1]
	})
	out := make([]string, len(ids))
	for i, id := range ids {
		out[i] = fmt.Sprintf("%s:v%d", id, w.vers[id])
		if c.KeepFull {
			// the full object is part of the snapshot: fields outside the projection must be current too
			out[i] += ":p=" + w.outside[id]
		}
	}
	return out
}

// c02render turns a real snapshot into the same form, checking each item's shape.
func c02render(c c02cfg, snap []kemtypes.ObjectAndFilterResult) ([]string, string) {
	var out []string
	for _, it := range snap {
		m := it.Map()
		id, ver := c01verOf(it)
		if c.Jq && !c.KeepFull {
			if fr, ok := m["filterResult"].(map[string]any); ok {
				fmt.Sscan(fmt.Sprint(fr["p"]), &ver)
			}
		}
		_, hasObj := m["object"]
		if hasObj != c.KeepFull {
			return nil, fmt.Sprintf("item %s: object present=%v, keepFullObjectsInMemory=%v", id, hasObj, c.KeepFull)
		}
		fr, hasFr := m["filterResult"]
		if hasFr != c.Jq {
			return nil, fmt.Sprintf("item %s: filterResult present=%v, jqFilter set=%v", id, hasFr, c.Jq)
		}
		if c.Jq && c.KeepFull {
			b, _ := json.Marshal(fr)
			if string(b) != fmt.Sprintf(`{"p":"%d"}`, ver) {
				return nil, fmt.Sprintf("item %s v%d: filterResult %s is not the binding's projection of that object", id, ver, b)
			}
		}
		if !c.Jq && !c.KeepFull {
			out = append(out, id+":v?")
			continue
		}
		item := fmt.Sprintf("%s:v%d", id, ver)
		if c.KeepFull && it.Object != nil {
			d, _ := it.Object.Object["data"].(map[string]any)
			item += ":p=" + fmt.Sprint(d["p"])
		}
		out = append(out, item)
	}
	return out, ""
}

func c02alphabet() []c02op {
	var ops []c02op
	for _, o := range [][2]string{{"n1", "a"}, {"n1", "b"}, {"n2", "a"}, {"n3", "a"}} {
		for _, k := range []string{"create", "modify", "delete"} {
			ops = append(ops, c02op{k, o[0], o[1]})
		}
	}
	ops = append(ops, c02op{"touch", "n1", "a"}, c02op{"touch", "n2", "a"})
	return append(ops, c02op{"delns", "n2", ""}, c02op{"addns", "n3", ""})
}

func c02strip(ref []string, c c02cfg) []string {
	if c.Jq || c.KeepFull {
		return ref
	}
	out := make([]string, len(ref))
	for i, s := range ref {
		out[i] = s[:strings.LastIndex(s, ":")] + ":v?"
	}
	return out
}

// c02history runs one history under the scheduler (default schedule: the hub's delivery threads
// need it) and checks the snapshot after every step.
func c02history(c c02cfg, ops []c02op) (sig, what string, states []string) {
	opts := vrt.Options{Bound: 0, MaxSteps: 100000}
	x := vrt.Run(&opts, nil, nil, func(x *vrt.Exec) {
		hub := &ZZHub{}
		ZZInstallHub(hub)
		defer ZZInstallHub(nil)
		w := newC02world(hub)
		w.apply(c02op{"create", "n1", "a"}) // something exists before the monitor starts
		ctx, cancel := context.WithCancel(context.Background())
		defer cancel()
		mgr := NewKubeEventsManager(ctx, w.client, log.NewNop())
		mgr.WithMetricStorage(vfx.NopStorage{})
		if err := mgr.AddMonitor(c.monitorConfig("m1")); err != nil {
			panic(err)
		}
		mgr.StartMonitor("m1")
		mon := mgr.GetMonitor("m1")
		mon.EnableKubeEventCb()
		vrt.Eager(func() {
			for len(mgr.Ch()) > 0 {
				<-mgr.Ch()
			}
		})
		settle := func() {
			vrt.WaitFor("delivered", time.Hour, func() bool { return !hub.Pending() && hub.Busy == 0 })
		}
		settle()
		check := func(step string) bool {
			want := c02strip(w.reference(c), c)
			got, bad := c02render(c, mon.Snapshot())
			if bad != "" {
				sig, what = "C02a item-shape", step+": "+bad
				return false
			}
			states = append(states, strings.Join(got, ","))
			if strings.Join(got, ",") != strings.Join(want, ",") {
				kind := "stale-or-missing"
				if len(got) > len(want) {
					kind = "extra-object"
				} else if len(got) == len(want) {
					kind = "wrong-content-or-order"
				}
				sig, what = "C02a snapshot "+kind+" ns="+c.NsMode, fmt.Sprintf("%s: snapshot %v, cluster has %v", step, got, want)
				return false
			}
			// restart: a fresh monitor on the same cluster returns the same snapshot
			if err := mgr.AddMonitor(c.monitorConfig("m2")); err != nil {
				panic(err)
			}
			fresh, _ := c02render(c, mgr.GetMonitor("m2").Snapshot())
			_ = mgr.StopMonitor("m2")
			if strings.Join(fresh, ",") != strings.Join(got, ",") {
				sig, what = "C02a restart-differs", fmt.Sprintf("%s: running monitor %v, fresh monitor %v", step, got, fresh)
				return false
			}
			return true
		}
		if !check("start") {
			return
		}
		for i, o := range ops {
			if !w.enabled(o) {
				sig = "skip"
				return
			}
			w.apply(o)
			settle()
			if !check(fmt.Sprintf("after step %d %s", i, o)) {
				return
			}
		}
		hub.StopAll()
	})
	if len(x.Panics) > 0 {
		return "C02a panic", strings.Join(x.Panics, "\n"), states
	}
	if x.End == "deadlock" && sig == "" {
		return "C02a deadlock", strings.Join(x.Blocked, "; "), states
	}
	return
}

func TestVerifC02a(t *testing.T) {
	r := vres.New("c02a")
	defer r.Finish()
	alpha := c02alphabet()
	depth := vres.Pick(3, 4)
	var cfgs []c02cfg
	for _, nm := range []string{"all", "names", "labels"} {
		for _, names := range []bool{false, true} {
			cfgs = append(cfgs, c02cfg{nm, names, false, true})
		}
		cfgs = append(cfgs, c02cfg{nm, false, true, true}, c02cfg{nm, false, true, false})
	}
	cfgs = append(cfgs, c02cfg{"names2", false, false, true}, c02cfg{"names2", false, true, false})
	cfgs = append(cfgs, c02cfg{"field", false, false, true}, c02cfg{"field", false, true, false})
	r.Bound("history_depth", depth)
	r.Bound("op_alphabet", len(alpha))
	r.Bound("monitor_configurations", len(cfgs))
	var ord int64
	for _, c := range cfgs {
		for n := 1; n <= depth; n++ {
			idx := make([]int, n)
			for {
				ops := make([]c02op, n)
				names := make([]string, n)
				for i, v := range idx {
					ops[i] = alpha[v]
					names[i] = alpha[v].String()
				}
				ord++
				if vres.Mine(ord) || r.Replaying() {
					key := c.String() + "|" + strings.Join(names, ";")
					if r.Want(key) {
						sig, what, states := c02history(c, ops)
						if sig != "skip" {
							r.Eval(1)
							r.Transition(int64(len(states)))
							if sig != "" {
								r.Violation(sig, key, what, nil)
								r.Outcome("V:"+sig, true)
							} else {
								for _, s := range states {
									r.State(c.String() + "|" + s)
								}
								r.Outcome(c.String()+"|"+states[len(states)-1], n > 1)
								r.Sample(map[string]any{"config": c.String(), "history": names, "snapshots_after_each_step": states})
							}
						}
					}
				}
				i := n - 1
				for i >= 0 {
					idx[i]++
					if idx[i] < len(alpha) {
						break
					}
					idx[i] = 0
					i--
				}
				if i < 0 || r.Expired() {
					break
				}
			}
		}
	}
}

// ---- part b: start-up window ----

func TestVerifC02b(t *testing.T) {
	r := vres.New("c02b")
	defer r.Finish()
	bound := vres.Pick(1, 2)
	r.Bound("deviation_bound", bound)
	shard, shards := vres.Shard()
	histories := map[string][]c02op{
		"delete-existing": {{"delete", "n1", "a"}},
		"modify-existing": {{"modify", "n1", "a"}},
		"create-new":      {{"create", "n1", "b"}},
		"delete-recreate": {{"delete", "n1", "a"}, {"create", "n1", "a"}},
		"create-delete":   {{"create", "n1", "b"}, {"delete", "n1", "b"}},
	}
	var names []string
	for k := range histories {
		names = append(names, k)
	}
	sort.Strings(names)
	c := c02cfg{"all", false, false, true}
	for _, hn := range names {
		hist := histories[hn]
		var got, want []string
		var quiet bool
		body := func(x *vrt.Exec) {
			hub := &ZZHub{}
			ZZInstallHub(hub)
			defer ZZInstallHub(nil)
			w := newC02world(hub)
			w.apply(c02op{"create", "n1", "a"})
			ctx, cancel := context.WithCancel(context.Background())
			defer cancel()
			mgr := NewKubeEventsManager(ctx, w.client, log.NewNop())
			mgr.WithMetricStorage(vfx.NopStorage{})
			vrt.Eager(func() {
				for len(mgr.Ch()) > 0 {
					<-mgr.Ch()
				}
			})
			envDone := false
			vrt.GoNamed("env", func() {
				for _, o := range hist {
					vrt.Yield("env-mutation")
					w.apply(o)
				}
				envDone = true
			})
			if err := mgr.AddMonitor(c.monitorConfig("m1")); err != nil { // first LIST
				panic(err)
			}
			vrt.Yield("between-lists")
			mgr.StartMonitor("m1") // the informer's own LIST
			mon := mgr.GetMonitor("m1")
			mon.EnableKubeEventCb()
			quiet = vrt.WaitFor("quiet", time.Hour, func() bool { return envDone && !hub.Pending() && hub.Busy == 0 })
			got, _ = c02render(c, mon.Snapshot())
			want = w.reference(c)
			hub.StopAll()
		}
		ex := &vrt.Explorer{Opts: vrt.Options{Bound: bound, MaxSteps: 20000}, Shard: shard, Shards: shards, Deadline: r.Deadline()}
		ex.Check = func(x *vrt.Exec) {
			key := fmt.Sprintf("%s|%v", hn, x.Choices)
			r.Eval(1)
			r.Transition(int64(x.Steps))
			if len(x.Panics) > 0 {
				r.Violation("C02b panic", key, strings.Join(x.Panics, "\n"), nil)
				return
			}
			if !quiet {
				r.Violation("C02b not-quiet", key, x.End, nil)
				return
			}
			if strings.Join(got, ",") != strings.Join(want, ",") {
				kind := "missing-or-stale"
				if len(got) > len(want) {
					kind = "ghost-object"
				}
				r.Violation("C02b startup-window "+kind, key, fmt.Sprintf("history %s during start-up: once quiet the snapshot is %v, the cluster has %v", hn, got, want), nil)
				r.Outcome("V:"+kind, true)
				return
			}
			r.State(hn + fmt.Sprint(x.Choices))
			r.Outcome(hn+"|"+strings.Join(got, ","), x.Devs() > 0)
			if x.Devs() > 0 {
				r.Sample(map[string]any{"history": hn, "choices": fmt.Sprint(x.Choices), "snapshot": got})
			}
		}
		if r.Replaying() {
			parts := strings.SplitN(r.OnlyCase(), "|", 2)
			if len(parts) != 2 || parts[0] != hn {
				continue
			}
			var choices []int
			for _, f := range strings.Fields(strings.Trim(parts[1], "[]")) {
				var v int
				fmt.Sscan(f, &v)
				choices = append(choices, v)
			}
			opts := ex.Opts
			ex.Check(vrt.Run(&opts, choices, nil, body))
			continue
		}
		ex.Explore(body)
		r.Count("executions:"+hn, ex.Stats.Executions)
	}
	_ = unstructured.Unstructured{}
}
