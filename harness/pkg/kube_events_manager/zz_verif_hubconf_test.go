package kubeeventsmanager

// Hub conformance — the informer hub (zz_verif_hub.go) is the environment model that stands in
// for client-go informers in every scheduler-controlled check. This part binds it to the real
// thing: for every cluster history up to a depth and every registration moment of one or two
// handlers, the same history is played
//   (R) against REAL client-go shared informers, started by the repository's own
//       FactoryStore.Start / namespaceInformer.start on the fake cluster (free running, real
//       goroutines; a sentinel object is used as a barrier so that every step is fully
//       delivered before the next one), and
//   (H) against the hub under the controlled scheduler,
// and the per-handler callback sequences (kind, object, version, labels; old and new for
// updates) must be identical step by step. Initial-list callbacks of one registration are
// compared as a set (the fake tracker lists in map order).
// Only configurations for which the fake cluster is faithful are compared on the watch path:
// the fake tracker's WATCH ignores label and field selectors (an API server does not), so
// selector configurations are compared on their initial LIST only.

import (
	"context"
	"fmt"
	"runtime"
	"sort"
	"strings"
	"sync"
	"testing"
	"time"

	v1 "k8s.io/api/core/v1"
	metav1 "k8s.io/apimachinery/pkg/apis/meta/v1"
	"k8s.io/apimachinery/pkg/apis/meta/v1/unstructured"
	"k8s.io/client-go/dynamic"
	"k8s.io/client-go/tools/cache"

	"github.com/deckhouse/deckhouse/pkg/log"

	kemtypes "github.com/flant/shell-operator/pkg/kube_events_manager/types"
	"github.com/flant/shell-operator/pkg/zzverif/vfx"
	"github.com/flant/shell-operator/pkg/zzverif/vres"
	"github.com/flant/shell-operator/pkg/zzverif/vrt"
)

const cfSentinel = "zz"

type cfRecorder struct {
	mu       sync.Mutex
	steps    [][]string // callbacks grouped by step
	cur      []string
	sentinel int
}

func cfDesc(o any) string {
	if d, ok := o.(cache.DeletedFinalStateUnknown); ok {
		o = d.Obj
	}
	u, ok := o.(*unstructured.Unstructured)
	if !ok {
		return fmt.Sprintf("?%T", o)
	}
	v, _, _ := unstructured.NestedString(u.Object, "data", "v")
	return fmt.Sprintf("%s/%s:v%s:%s", u.GetNamespace(), u.GetName(), v, u.GetLabels()["k"])
}

func cfSentinelVer(o any) (int, bool) {
	if d, ok := o.(cache.DeletedFinalStateUnknown); ok {
		o = d.Obj
	}
	u, ok := o.(*unstructured.Unstructured)
	if !ok || u.GetName() != cfSentinel {
		return 0, false
	}
	v, _, _ := unstructured.NestedString(u.Object, "data", "v")
	n := 0
	fmt.Sscan(v, &n)
	return n, true
}

func (r *cfRecorder) rec(s string, o any) {
	r.mu.Lock()
	defer r.mu.Unlock()
	if n, ok := cfSentinelVer(o); ok {
		if n > r.sentinel {
			r.sentinel = n
		}
		return
	}
	r.cur = append(r.cur, s)
}

type cfHandler struct{ r *cfRecorder }

func (h cfHandler) OnAdd(o any, isInInitialList bool) {
	s := "add "
	if isInInitialList {
		s = "add(initial) "
	}
	h.r.rec(s+cfDesc(o), o)
}
func (h cfHandler) OnUpdate(o, n any) { h.r.rec("update "+cfDesc(o)+" -> "+cfDesc(n), n) }
func (h cfHandler) OnDelete(o any)    { h.r.rec("delete "+cfDesc(o), o) }

func (r *cfRecorder) handler() cache.ResourceEventHandler { return cfHandler{r} }

func (r *cfRecorder) endStep() {
	r.mu.Lock()
	defer r.mu.Unlock()
	s := append([]string{}, r.cur...)
	sort.Strings(s)
	r.steps = append(r.steps, s)
	r.cur = nil
}

func (r *cfRecorder) seen() int {
	r.mu.Lock()
	defer r.mu.Unlock()
	return r.sentinel
}

func (r *cfRecorder) render() string {
	r.mu.Lock()
	defer r.mu.Unlock()
	var b []string
	for _, s := range r.steps {
		b = append(b, "["+strings.Join(s, ", ")+"]")
	}
	return strings.Join(b, " ")
}

type cfOp struct {
	kind     string // create update relabel delete
	ns, name string
}

func (o cfOp) String() string { return o.kind + " " + o.ns + "/" + o.name }

type cfWorld struct {
	dyn dynamic.Interface
	hub *ZZHub
	ver map[string]int
	lab map[string]string
}

func cfObj(ns, name string, ver int, label string) *unstructured.Unstructured {
	o := c01obj(ns, name, ver, "p")
	o.SetLabels(map[string]string{"k": label})
	return o
}

func (w *cfWorld) enabled(o cfOp) bool {
	_, ok := w.ver[o.ns+"/"+o.name]
	if o.kind == "create" {
		return !ok
	}
	return ok
}

func (w *cfWorld) apply(o cfOp) {
	ctx := context.Background()
	id := o.ns + "/" + o.name
	res := w.dyn.Resource(c01gvr).Namespace(o.ns)
	switch o.kind {
	case "create":
		obj := cfObj(o.ns, o.name, 0, "x")
		if _, err := res.Create(ctx, obj, metav1.CreateOptions{}); err != nil {
			panic(err)
		}
		w.ver[id], w.lab[id] = 0, "x"
		if w.hub != nil {
			w.hub.Notify(c01gvr, "add", nil, obj)
		}
	case "update", "relabel":
		old := cfObj(o.ns, o.name, w.ver[id], w.lab[id])
		if o.kind == "update" {
			w.ver[id]++
		} else if w.lab[id] == "x" {
			w.lab[id] = "y"
		} else {
			w.lab[id] = "x"
		}
		obj := cfObj(o.ns, o.name, w.ver[id], w.lab[id])
		if _, err := res.Update(ctx, obj, metav1.UpdateOptions{}); err != nil {
			panic(err)
		}
		if w.hub != nil {
			w.hub.Notify(c01gvr, "update", old, obj)
		}
	case "delete":
		old := cfObj(o.ns, o.name, w.ver[id], w.lab[id])
		if err := res.Delete(ctx, o.name, metav1.DeleteOptions{}); err != nil {
			panic(err)
		}
		delete(w.ver, id)
		delete(w.lab, id)
		if w.hub != nil {
			w.hub.Notify(c01gvr, "delete", nil, old)
		}
	}
}

type cfCase struct {
	index  FactoryIndex
	ops    []cfOp
	reg    []int // reg[i] = number of ops applied before handler i registers
	noWait bool  // list-only comparison: nothing happens after the registration
	// stop0: when > 0, handler 0 is stopped (FactoryStore.Stop and its own context cancelled, as a
	// resourceInformer does) after this many operations; the other handler of the shared informer
	// must go on receiving
	stop0 int
}

func (c cfCase) key() string {
	var names []string
	for _, o := range c.ops {
		names = append(names, o.String())
	}
	k := fmt.Sprintf("ns=%q fs=%q ls=%q|reg=%v|%s", c.index.Namespace, c.index.FieldSelector, c.index.LabelSelector, c.reg, strings.Join(names, ";"))
	if c.stop0 > 0 {
		k += fmt.Sprintf("|stop-h0-after=%d", c.stop0)
	}
	return k
}

var cfTimeout = fmt.Errorf("barrier timeout")

// cfSentNs: the sentinel lives where the informer under test watches. The fake WATCH ignores
// selectors, so the sentinel's updates reach every handler of that namespace.
func cfSentNs(index FactoryIndex) string {
	if index.Namespace != "" {
		return index.Namespace
	}
	return "n1"
}

// cfRunReal plays the case against real client-go informers started by the repository's own
// FactoryStore.
func cfRunReal(c cfCase) ([]string, error) {
	client := vfx.NewMiniCluster()
	w := &cfWorld{dyn: client.Dynamic(), ver: map[string]int{}, lab: map[string]string{}}
	fs := NewFactoryStore()
	ctx, cancel := context.WithCancel(context.Background())
	defer cancel()
	weh := newWatchErrorHandler("conf", "ConfigMap", nil, vfx.NopStorage{}, log.NewNop())
	var recs []*cfRecorder
	sentNs := cfSentNs(c.index)
	sentVer := 0
	res := w.dyn.Resource(c01gvr).Namespace(sentNs)
	if _, err := res.Create(ctx, cfObj(sentNs, cfSentinel, 0, "x"), metav1.CreateOptions{}); err != nil {
		return nil, err
	}
	bump := func() {
		sentVer++
		if _, err := res.Update(ctx, cfObj(sentNs, cfSentinel, sentVer, "x"), metav1.UpdateOptions{}); err != nil {
			panic(err)
		}
	}
	stopped := map[int]bool{}
	waitAll := func(ver int, limit time.Duration) bool {
		deadline := time.Now().Add(limit)
		for {
			ok := true
			for i, r := range recs {
				if !stopped[i] && r.seen() < ver {
					ok = false
				}
			}
			if ok {
				return true
			}
			if time.Now().After(deadline) {
				return false
			}
			time.Sleep(20 * time.Microsecond)
		}
	}
	barrier := func() error {
		// the fake tracker does not replay events between the informer's LIST and its WATCH
		// (an API server does, by resource version): bump until the bump is seen
		start := time.Now()
		for {
			bump()
			if waitAll(sentVer, 5*time.Millisecond) {
				return nil
			}
			if time.Since(start) > 20*time.Second {
				return cfTimeout
			}
		}
	}
	defer func() {
		for i := range recs {
			fs.Stop(fmt.Sprintf("h%d", i), c.index)
		}
	}()
	var cancels []context.CancelFunc
	register := func() error {
		r := &cfRecorder{}
		id := fmt.Sprintf("h%d", len(recs))
		hctx, hcancel := context.WithCancel(ctx) // every resourceInformer starts its handler with a context of its own
		if err := fs.Start(hctx, id, w.dyn, c.index, r.handler(), weh); err != nil {
			hcancel()
			return err
		}
		cancels = append(cancels, hcancel)
		recs = append(recs, r)
		return nil
	}
	defer func() {
		for _, cf := range cancels {
			cf()
		}
	}()
	step := func() error {
		if len(recs) > 0 {
			if err := barrier(); err != nil {
				return err
			}
		}
		for _, r := range recs {
			r.endStep()
		}
		return nil
	}
	for i := 0; i <= len(c.ops); i++ {
		for _, at := range c.reg {
			if at == i {
				if err := register(); err != nil {
					return nil, err
				}
				if err := step(); err != nil {
					return nil, err
				}
			}
		}
		if c.stop0 > 0 && i == c.stop0 && len(recs) >= 2 && !stopped[0] {
			fs.Stop("h0", c.index)
			cancels[0]()
			stopped[0] = true
			// the informer is shared: it must keep running for the handler that is still registered
			if f, ok := fs.data[c.index]; ok {
				inf := f.shared.ForResource(c.index.GVR).Informer()
				for dl := time.Now().Add(20 * time.Millisecond); time.Now().Before(dl); time.Sleep(200 * time.Microsecond) {
					if inf.IsStopped() {
						return nil, fmt.Errorf("the shared informer stopped when the first of its two handlers was stopped; the second handler gets nothing any more")
					}
				}
			}
		}
		if i < len(c.ops) {
			w.apply(c.ops[i])
			if err := step(); err != nil {
				return nil, err
			}
		}
	}
	var out []string
	for _, r := range recs {
		out = append(out, r.render())
	}
	return out, nil
}

// cfRunHub plays the case against the hub under the controlled scheduler (default schedule).
func cfRunHub(c cfCase) ([]string, string) {
	var out []string
	opts := vrt.Options{MaxSteps: 100000}
	x := vrt.Run(&opts, nil, nil, func(x *vrt.Exec) {
		hub := &ZZHub{}
		ZZInstallHub(hub)
		defer ZZInstallHub(nil)
		client := vfx.NewMiniCluster()
		hub.Dyn = client.Dynamic()
		w := &cfWorld{dyn: client.Dynamic(), hub: hub, ver: map[string]int{}, lab: map[string]string{}}
		if _, err := w.dyn.Resource(c01gvr).Namespace(cfSentNs(c.index)).Create(context.Background(), cfObj(cfSentNs(c.index), cfSentinel, 0, "x"), metav1.CreateOptions{}); err != nil {
			panic(err)
		}
		fs := NewFactoryStore()
		weh := newWatchErrorHandler("conf", "ConfigMap", nil, vfx.NopStorage{}, log.NewNop())
		var recs []*cfRecorder
		step := func() {
			vrt.WaitFor("hub-quiet", time.Hour, func() bool { return !hub.Pending() && hub.Busy == 0 })
			for _, r := range recs {
				r.endStep()
			}
		}
		for i := 0; i <= len(c.ops); i++ {
			for _, at := range c.reg {
				if at == i {
					r := &cfRecorder{}
					if err := fs.Start(context.Background(), fmt.Sprintf("h%d", len(recs)), w.dyn, c.index, r.handler(), weh); err != nil {
						panic(err)
					}
					recs = append(recs, r)
					step()
				}
			}
			if c.stop0 > 0 && i == c.stop0 && len(recs) >= 2 {
				fs.Stop("h0", c.index)
			}
			if i < len(c.ops) {
				w.apply(c.ops[i])
				step()
			}
		}
		hub.StopAll()
		for _, r := range recs {
			out = append(out, r.render())
		}
	})
	if len(x.Panics) > 0 {
		return nil, strings.Join(x.Panics, "\n")
	}
	if x.End == "deadlock" {
		return nil, "deadlock: " + strings.Join(x.Blocked, "; ")
	}
	return out, ""
}

func cfAlphabet() []cfOp {
	var a []cfOp
	for _, id := range [][2]string{{"n1", "a"}, {"n1", "b"}, {"n2", "a"}} {
		for _, k := range []string{"create", "update", "relabel", "delete"} {
			a = append(a, cfOp{k, id[0], id[1]})
		}
	}
	return a
}

func cfHistories(depth int, visit func(ops []cfOp)) {
	alpha := cfAlphabet()
	var rec func(ops []cfOp, w *cfWorld)
	rec = func(ops []cfOp, w *cfWorld) {
		if len(ops) > 0 {
			visit(append([]cfOp{}, ops...))
		}
		if len(ops) == depth {
			return
		}
		for _, o := range alpha {
			if !w.enabled(o) {
				continue
			}
			// successor world (only the bookkeeping part)
			nw := &cfWorld{ver: map[string]int{}, lab: map[string]string{}}
			for k, v := range w.ver {
				nw.ver[k] = v
			}
			for k, v := range w.lab {
				nw.lab[k] = v
			}
			id := o.ns + "/" + o.name
			switch o.kind {
			case "create":
				nw.ver[id], nw.lab[id] = 0, "x"
			case "update":
				nw.ver[id]++
			case "relabel":
				if nw.lab[id] == "x" {
					nw.lab[id] = "y"
				} else {
					nw.lab[id] = "x"
				}
			case "delete":
				delete(nw.ver, id)
				delete(nw.lab, id)
			}
			rec(append(ops, o), nw)
		}
	}
	rec(nil, &cfWorld{ver: map[string]int{}, lab: map[string]string{}})
}

func TestVerifHubConformance(t *testing.T) {
	r := vres.New("hubconf")
	defer r.Finish()
	saved := DefaultSyncTime
	DefaultSyncTime = 200 * time.Microsecond
	defer func() { DefaultSyncTime = saved }()
	base := runtime.NumGoroutine()
	depth := vres.Pick(3, 4)
	r.Bound("history_depth", depth)
	r.Bound("op_alphabet", len(cfAlphabet()))
	r.Bound("handlers", "1..2 per informer, every registration moment")
	watchIdx := []FactoryIndex{{GVR: c01gvr}, {GVR: c01gvr, Namespace: "n1"}}
	listIdx := []FactoryIndex{
		{GVR: c01gvr, LabelSelector: "k=x"}, {GVR: c01gvr, Namespace: "n1", LabelSelector: "k=y"},
		{GVR: c01gvr, FieldSelector: "metadata.name=a"}, {GVR: c01gvr, Namespace: "n1", FieldSelector: "metadata.name=a"},
		{GVR: c01gvr, Namespace: "n2", FieldSelector: "metadata.name=b"},
	}
	// Two phases: real informers leave goroutines behind that end asynchronously; none of them
	// may be alive while the scheduler owns an execution. Phase 1 plays every case against real
	// client-go, phase 2 (after the goroutines are gone) against the hub.
	type pending struct {
		c    cfCase
		real []string
	}
	var todo []pending
	var ord int64
	run := func(c cfCase) {
		ord++
		if !(vres.Mine(ord) || r.Replaying()) || r.Expired() {
			return
		}
		key := c.key()
		if !r.Want(key) {
			return
		}
		real, err := cfRunReal(c)
		if err == cfTimeout {
			r.Cap("real informer barrier timed out (case skipped): " + key)
			return
		}
		if err != nil {
			r.Violation("hubconf real-informer-error", key, err.Error(), nil)
			return
		}
		todo = append(todo, pending{c, real})
	}
	compare := func(i int, p pending) {
		c, real, key := p.c, p.real, p.c.key()
		hub, herr := cfRunHub(c)
		r.Eval(1)
		r.Transition(int64(len(c.ops) + len(c.reg)))
		if herr != "" {
			r.Violation("hubconf hub-run-failed", key, herr, nil)
			return
		}
		a, b := strings.Join(real, " || "), strings.Join(hub, " || ")
		if a != b {
			r.Violation("hubconf hub-differs-from-client-go", key, fmt.Sprintf("real client-go informers delivered\n  %s\nthe hub delivered\n  %s", a, b), nil)
			r.Outcome("V", true)
			return
		}
		r.State(a)
		r.Outcome(a, len(c.ops) > 1)
		if i%97 == 0 {
			r.Sample(map[string]any{"case": key, "per_handler_callbacks_by_step": real})
		}
	}
	cfHistories(depth, func(ops []cfOp) {
		for _, idx := range watchIdx {
			for r1 := 0; r1 <= len(ops); r1++ {
				run(cfCase{index: idx, ops: ops, reg: []int{r1}})
				for r2 := r1; r2 <= len(ops); r2++ {
					run(cfCase{index: idx, ops: ops, reg: []int{r1, r2}})
					// the first handler goes away while the second stays
					for st := r2; st < len(ops) && st > 0; st++ {
						run(cfCase{index: idx, ops: ops, reg: []int{r1, r2}, stop0: st})
					}
				}
			}
		}
		for _, idx := range listIdx {
			run(cfCase{index: idx, ops: ops, reg: []int{len(ops)}, noWait: true})
		}
	})
	nsTodo := cfNamespacesReal(r)
	cfSettle(base)
	for i, p := range todo {
		if r.Expired() {
			break
		}
		compare(i, p)
	}
	cfNamespacesHub(r, nsTodo)
}

// cfSettle waits until the goroutines of the real-informer phase are gone: every goroutine
// (other than the caller) whose stack is in this package or in client-go's informer machinery.
func cfSettle(_ int) {
	deadline := time.Now().Add(60 * time.Second)
	for {
		buf := make([]byte, 1<<22)
		buf = buf[:runtime.Stack(buf, true)]
		var alive []string
		for i, g := range strings.Split(string(buf), "\n\n") {
			if i == 0 {
				continue // the caller
			}
			if strings.Contains(g, "pkg/kube_events_manager") || strings.Contains(g, "client-go/tools/cache") || strings.Contains(g, "client-go/informers") {
				alive = append(alive, g)
			}
		}
		if len(alive) == 0 {
			return
		}
		if time.Now().After(deadline) {
			panic(fmt.Sprintf("hub conformance: %d goroutines of the real-informer phase are still alive, e.g.\n%s", len(alive), alive[0]))
		}
		time.Sleep(5 * time.Millisecond)
	}
}

// ---- namespace informer ----

type cfNsOp struct {
	kind string // add delete
	name string
}

func cfNsRun(useHub bool, initial []string, ops []cfNsOp, sel string) (string, error) {
	var mu sync.Mutex
	var evs []string
	seen := map[string]bool{}
	add := func(n string) {
		mu.Lock()
		defer mu.Unlock()
		if strings.HasPrefix(n, cfSentinel) {
			seen[n] = true
			return
		}
		evs = append(evs, "add "+n)
	}
	del := func(n string) {
		mu.Lock()
		defer mu.Unlock()
		evs = append(evs, "delete "+n)
	}
	labelsOf := func(n string) map[string]string {
		if strings.HasPrefix(n, "m") || strings.HasPrefix(n, cfSentinel) {
			return map[string]string{"env": "yes"}
		}
		return map[string]string{"other": "1"}
	}
	var failure error
	body := func() {
		client := vfx.NewMiniCluster()
		ctx, cancel := context.WithCancel(context.Background())
		defer cancel()
		var hub *ZZHub
		if useHub {
			hub = &ZZHub{}
			ZZInstallHub(hub)
			defer ZZInstallHub(nil)
		}
		mk := func(n string) *v1.Namespace {
			return &v1.Namespace{ObjectMeta: metav1.ObjectMeta{Name: n, Labels: labelsOf(n)}}
		}
		for _, n := range initial {
			if _, err := client.CoreV1().Namespaces().Create(ctx, mk(n), metav1.CreateOptions{}); err != nil {
				panic(err)
			}
		}
		mc := &MonitorConfig{Kind: "ConfigMap", ApiVersion: "v1"}
		mc.Metadata.DebugName = "conf"
		mc.Logger = log.NewNop()
		mc.NamespaceSelector = &kemtypes.NamespaceSelector{LabelSelector: &metav1.LabelSelector{MatchLabels: map[string]string{"env": sel}}}
		ni := NewNamespaceInformer(ctx, client, mc)
		if err := ni.createSharedInformer(add, del); err != nil {
			failure = err
			return
		}
		ni.start()
		sent := 0
		barrier := func() bool {
			if useHub {
				vrt.WaitFor("hub-quiet", time.Hour, func() bool { return !hub.Pending() && hub.Busy == 0 })
				return true
			}
			start := time.Now()
			for {
				sent++
				name := fmt.Sprintf("%s%d", cfSentinel, sent)
				if _, err := client.CoreV1().Namespaces().Create(ctx, mk(name), metav1.CreateOptions{}); err != nil {
					panic(err)
				}
				deadline := time.Now().Add(5 * time.Millisecond)
				for time.Now().Before(deadline) {
					mu.Lock()
					ok := seen[name]
					mu.Unlock()
					if ok {
						return true
					}
					time.Sleep(20 * time.Microsecond)
				}
				if time.Since(start) > 20*time.Second {
					return false
				}
			}
		}
		mark := func() {
			mu.Lock()
			evs = append(evs, "|")
			mu.Unlock()
		}
		if !barrier() {
			failure = cfTimeout
			return
		}
		mark()
		for _, o := range ops {
			switch o.kind {
			case "add":
				nsObj := mk(o.name)
				if _, err := client.CoreV1().Namespaces().Create(ctx, nsObj, metav1.CreateOptions{}); err != nil {
					panic(err)
				}
				if hub != nil {
					hub.NotifyNs("add", nsObj)
				}
			case "delete":
				if err := client.CoreV1().Namespaces().Delete(ctx, o.name, metav1.DeleteOptions{}); err != nil {
					panic(err)
				}
				if hub != nil {
					hub.NotifyNs("delete", mk(o.name))
				}
			}
			if !barrier() {
				failure = cfTimeout
				return
			}
			mark()
		}
		if hub != nil {
			hub.StopAll()
		}
	}
	if useHub {
		opts := vrt.Options{MaxSteps: 100000}
		x := vrt.Run(&opts, nil, nil, func(*vrt.Exec) { body() })
		if len(x.Panics) > 0 {
			return "", fmt.Errorf("%s", strings.Join(x.Panics, "\n"))
		}
		if x.End == "deadlock" {
			return "", fmt.Errorf("deadlock: %s", strings.Join(x.Blocked, "; "))
		}
	} else {
		body()
	}
	if failure != nil {
		return "", failure
	}
	// initial callbacks come in list order (map order in the fake): compare as a set
	parts := strings.Split(strings.Join(evs, ","), "|")
	first := strings.Split(strings.Trim(parts[0], ","), ",")
	sort.Strings(first)
	parts[0] = strings.Join(first, ",")
	return strings.Join(parts, "|"), nil
}

// cfNamespaces: namespace informer with a label selector. Namespaces m1, m2 carry the label,
// o1 does not. The fake WATCH does not filter by selector, so histories on the watch path
// use matching namespaces only; non-matching ones appear in the initial state (LIST path).
type cfNsPending struct {
	key     string
	initial []string
	ops     []cfNsOp
	real    string
}

func cfNamespacesReal(r *vres.R) []cfNsPending {
	var todo []cfNsPending
	names := []string{"m1", "m2"}
	depth := vres.Pick(3, 4)
	var ord int64 = 1 << 40
	for initMask := 0; initMask < 8; initMask++ {
		var initial []string
		present := map[string]bool{}
		for i, n := range []string{"m1", "m2", "o1"} {
			if initMask&(1<<i) != 0 {
				initial = append(initial, n)
				present[n] = true
			}
		}
		var rec func(ops []cfNsOp, present map[string]bool)
		rec = func(ops []cfNsOp, present map[string]bool) {
			ord++
			if (vres.Mine(ord) || r.Replaying()) && !r.Expired() {
				var parts []string
				for _, o := range ops {
					parts = append(parts, o.kind+" "+o.name)
				}
				key := fmt.Sprintf("namespaces initial=%v|%s", initial, strings.Join(parts, ";"))
				if r.Want(key) {
					real, err := cfNsRun(false, initial, ops, "yes")
					if err == cfTimeout {
						r.Cap("real namespace informer barrier timed out (case skipped): " + key)
					} else if err != nil {
						r.Violation("hubconf real-informer-error", key, err.Error(), nil)
					} else {
						todo = append(todo, cfNsPending{key, initial, ops, real})
					}
				}
			}
			if len(ops) == depth {
				return
			}
			for _, n := range names {
				np := map[string]bool{}
				for k, v := range present {
					np[k] = v
				}
				if present[n] {
					delete(np, n)
					rec(append(append([]cfNsOp{}, ops...), cfNsOp{"delete", n}), np)
				} else {
					np[n] = true
					rec(append(append([]cfNsOp{}, ops...), cfNsOp{"add", n}), np)
				}
			}
		}
		rec(nil, present)
	}
	return todo
}

func cfNamespacesHub(r *vres.R, todo []cfNsPending) {
	for _, p := range todo {
		if r.Expired() {
			return
		}
		hub, herr := cfNsRun(true, p.initial, p.ops, "yes")
		r.Eval(1)
		r.Transition(int64(len(p.ops) + 1))
		if herr != nil {
			r.Violation("hubconf hub-run-failed", p.key, herr.Error(), nil)
		} else if p.real != hub {
			r.Violation("hubconf hub-differs-from-client-go namespaces", p.key, fmt.Sprintf("real: %s\nhub:  %s", p.real, hub), nil)
		} else {
			r.State("ns:" + p.real)
			r.Outcome("ns:"+p.real, len(p.ops) > 1)
		}
	}
}
