package kubeeventsmanager

// Informer hub — the environment model that stands in for client-go informers under the
// controlled scheduler (added by build overlay only; DESIGN.md §3).
//
// factory.go and namespace_informer.go are compiled with (*FactoryStore).Start/Stop and
// (*namespaceInformer).start dispatching to the seam variables below when they are set.
// Contract modelled: at registration the hub LISTs through the same (fake) client and
// enqueues one OnAdd per object; afterwards every cluster mutation performed through
// ZZHub.Apply enqueues the matching OnAdd/OnUpdate/OnDelete for every registered handler whose
// namespace / name field selector matches. Every handler has its own FIFO drained by its own
// scheduler thread: per-handler order, no order across handlers, arbitrary lag. Start
// returns after the list is enqueued, not after it is delivered.

import (
	"context"
	"fmt"
	"strings"

	v1 "k8s.io/api/core/v1"
	metav1 "k8s.io/apimachinery/pkg/apis/meta/v1"
	"k8s.io/apimachinery/pkg/apis/meta/v1/unstructured"
	"k8s.io/apimachinery/pkg/fields"
	"k8s.io/apimachinery/pkg/labels"
	"k8s.io/apimachinery/pkg/runtime/schema"
	"k8s.io/client-go/dynamic"
	"k8s.io/client-go/tools/cache"

	"github.com/flant/shell-operator/pkg/zzverif/vrt"
)

var (
	zzSeamFactoryStart func(c *FactoryStore, ctx context.Context, informerId string, client dynamic.Interface, index FactoryIndex, handler cache.ResourceEventHandler, errorHandler *WatchErrorHandler) error
	zzSeamFactoryStop  func(c *FactoryStore, informerId string, index FactoryIndex)
	zzSeamNsStart      func(ni *namespaceInformer)
)

type zzDelivery struct {
	kind string // add update delete
	obj  *unstructured.Unstructured
	old  *unstructured.Unstructured
	ns   *v1.Namespace
	// initial: the callback belongs to the informer's initial list (client-go passes
	// isInInitialList=true for these)
	initial bool
}

type zzReg struct {
	id      string
	index   FactoryIndex
	handler cache.ResourceEventHandler
	fifo    []zzDelivery
	stopped bool
	Done    int // deliveries made
	// Initial: what the informer's own LIST returned at registration (namespace/name -> object)
	Initial map[string]*unstructured.Unstructured
	Late    bool // registered after the first Notify (an informer created at run time)
	// NotifiedBefore: how many mutations the environment had made when this handler registered
	NotifiedBefore int
}

type zzNsReg struct {
	ni      *namespaceInformer
	sel     labels.Selector
	fifo    []zzDelivery
	stopped bool
	known   map[string]bool
}

// ZZHub is the hub of one execution.
type ZZHub struct {
	Dyn    dynamic.Interface
	Regs   []*zzReg
	NsRegs []*zzNsReg
	// Log of deliveries (handler id, kind, object) in the order they were made.
	Delivered []string
	// Busy counts handlers that are inside a callback right now.
	Busy int
	// Gate: when Gated, resource handlers start a delivery only while Started < Allowed. The
	// harness raises Allowed to script how far informers have got at each phase of a scenario
	// (environment timing as an enumerated parameter instead of pre-emptions).
	Gated   bool
	Allowed int
	Started int
	Finished int
	// InitialListExtra, when set, is called between the hub's LIST and the registration: a
	// place for the harness to mutate the cluster inside the start-up window.
	seq         int
	notified    bool
	notifyCount int
}

var zzHub *ZZHub

// ZZInstallHub activates the seams for one execution.
func ZZInstallHub(h *ZZHub) {
	zzHub = h
	if h == nil {
		zzSeamFactoryStart, zzSeamFactoryStop, zzSeamNsStart = nil, nil, nil
		return
	}
	zzSeamFactoryStart = h.factoryStart
	zzSeamFactoryStop = h.factoryStop
	zzSeamNsStart = h.nsStart
}

func zzFieldName(fieldSelector string) string {
	for _, part := range strings.Split(fieldSelector, ",") {
		if strings.HasPrefix(part, "metadata.name=") && !strings.HasPrefix(part, "metadata.name=!") {
			return strings.TrimPrefix(strings.TrimPrefix(part, "metadata.name="), "=")
		}
	}
	return ""
}

// Namespace returns the namespace the handler is bound to.
func (r *zzReg) Namespace() string { return r.index.Namespace }

func (r *zzReg) matches(gvr schema.GroupVersionResource, obj *unstructured.Unstructured) bool {
	if r.index.GVR != gvr {
		return false
	}
	if r.index.Namespace != "" && obj.GetNamespace() != r.index.Namespace {
		return false
	}
	// the whole field selector, every requirement of it (as an API server evaluates it)
	if r.index.FieldSelector != "" {
		if sel, err := fields.ParseSelector(r.index.FieldSelector); err == nil {
			set := fields.Set{}
			for _, req := range sel.Requirements() {
				if v, ok, _ := unstructured.NestedString(obj.Object, strings.Split(req.Field, ".")...); ok {
					set[req.Field] = v
				}
			}
			if !sel.Matches(set) {
				return false
			}
		} else if n := zzFieldName(r.index.FieldSelector); n != "" && obj.GetName() != n {
			return false
		}
	}
	if r.index.LabelSelector != "" {
		sel, err := labels.Parse(r.index.LabelSelector)
		if err == nil && !sel.Matches(labels.Set(obj.GetLabels())) {
			return false
		}
	}
	return true
}

func (h *ZZHub) factoryStart(_ *FactoryStore, ctx context.Context, informerId string, client dynamic.Interface, index FactoryIndex, handler cache.ResourceEventHandler, _ *WatchErrorHandler) error {
	reg := &zzReg{id: informerId, index: index, handler: handler, Initial: map[string]*unstructured.Unstructured{}, Late: h.notified, NotifiedBefore: h.notifyCount}
	// the informer's own initial LIST
	list, err := client.Resource(index.GVR).Namespace(index.Namespace).List(context.TODO(), metav1.ListOptions{LabelSelector: index.LabelSelector})
	if err != nil {
		return err
	}
	for i := range list.Items {
		o := list.Items[i].DeepCopy()
		if reg.matches(index.GVR, o) {
			reg.fifo = append(reg.fifo, zzDelivery{kind: "add", obj: o, initial: true})
			reg.Initial[o.GetNamespace()+"/"+o.GetName()] = o
		}
	}
	h.Regs = append(h.Regs, reg)
	n := len(h.Regs)
	vrt.GoNamed(fmt.Sprintf("informer-%d", n), func() {
		for {
			vrt.Wait("informer-deliver", func() bool {
				return reg.stopped || (len(reg.fifo) > 0 && (!h.Gated || h.Started < h.Allowed))
			})
			if reg.stopped {
				return
			}
			d := reg.fifo[0]
			reg.fifo = reg.fifo[1:]
			h.Started++
			h.seq++
			h.Delivered = append(h.Delivered, fmt.Sprintf("%d:%s:%s/%s", n, d.kind, d.obj.GetNamespace(), d.obj.GetName()))
			h.Busy++
			switch d.kind {
			case "add":
				handler.OnAdd(d.obj, d.initial)
			case "update":
				handler.OnUpdate(d.old, d.obj)
			case "delete":
				handler.OnDelete(d.obj)
			}
			h.Busy--
			h.Finished++
			reg.Done++
		}
	})
	return nil
}

func (h *ZZHub) factoryStop(_ *FactoryStore, informerId string, _ FactoryIndex) {
	for _, r := range h.Regs {
		if r.id == informerId {
			r.stopped = true
			r.fifo = nil
		}
	}
}

func (h *ZZHub) nsStart(ni *namespaceInformer) {
	sel := labels.Everything()
	if ni.Monitor.NamespaceSelector != nil && ni.Monitor.NamespaceSelector.LabelSelector != nil {
		if s, err := metav1.LabelSelectorAsSelector(ni.Monitor.NamespaceSelector.LabelSelector); err == nil {
			sel = s
		}
	}
	reg := &zzNsReg{ni: ni, sel: sel, known: map[string]bool{}}
	list, err := ni.KubeClient.CoreV1().Namespaces().List(context.TODO(), metav1.ListOptions{LabelSelector: sel.String()})
	if err == nil {
		for i := range list.Items {
			nsObj := list.Items[i].DeepCopy()
			reg.known[nsObj.Name] = true
			reg.fifo = append(reg.fifo, zzDelivery{kind: "add", ns: nsObj, initial: true})
		}
	}
	h.NsRegs = append(h.NsRegs, reg)
	vrt.GoNamed("ns-informer", func() {
		for {
			vrt.Wait("ns-informer-deliver", func() bool { return len(reg.fifo) > 0 || reg.stopped })
			if reg.stopped && len(reg.fifo) == 0 {
				return
			}
			d := reg.fifo[0]
			reg.fifo = reg.fifo[1:]
			h.Delivered = append(h.Delivered, fmt.Sprintf("ns:%s:%s", d.kind, d.ns.Name))
			h.Busy++
			switch d.kind {
			case "add":
				ni.OnAdd(d.ns, d.initial)
			case "delete":
				ni.OnDelete(d.ns)
			}
			h.Busy--
		}
	})
}

// Notify enqueues the informer callbacks for one cluster mutation that the caller has
// already performed through the client. kind: add | update | delete.
func (h *ZZHub) Notify(gvr schema.GroupVersionResource, kind string, old, obj *unstructured.Unstructured) {
	h.notified = true
	h.notifyCount++
	for _, r := range h.Regs {
		if r.stopped {
			continue
		}
		was := old != nil && r.matches(gvr, old)
		is := obj != nil && r.matches(gvr, obj)
		switch kind {
		case "add":
			if is {
				r.fifo = append(r.fifo, zzDelivery{kind: "add", obj: obj.DeepCopy()})
			}
		case "delete":
			if is {
				r.fifo = append(r.fifo, zzDelivery{kind: "delete", obj: obj.DeepCopy()})
			}
		case "update":
			switch {
			case was && is:
				r.fifo = append(r.fifo, zzDelivery{kind: "update", old: old.DeepCopy(), obj: obj.DeepCopy()})
			case !was && is:
				r.fifo = append(r.fifo, zzDelivery{kind: "add", obj: obj.DeepCopy()})
			case was && !is:
				r.fifo = append(r.fifo, zzDelivery{kind: "delete", obj: old.DeepCopy()})
			}
		}
	}
}

// NotifyNs enqueues namespace callbacks (kind: add | delete) for matching namespace informers.
func (h *ZZHub) NotifyNs(kind string, ns *v1.Namespace) {
	h.notified = true
	h.notifyCount++
	for _, r := range h.NsRegs {
		if r.stopped {
			continue
		}
		match := r.sel.Matches(labels.Set(ns.Labels))
		switch kind {
		case "add":
			if match && !r.known[ns.Name] {
				r.known[ns.Name] = true
				r.fifo = append(r.fifo, zzDelivery{kind: "add", ns: ns.DeepCopy()})
			}
		case "delete":
			if r.known[ns.Name] {
				delete(r.known, ns.Name)
				r.fifo = append(r.fifo, zzDelivery{kind: "delete", ns: ns.DeepCopy()})
			}
		}
	}
}

// Queued returns the number of callbacks waiting in resource handlers' FIFOs.
func (h *ZZHub) Queued() int {
	n := 0
	for _, r := range h.Regs {
		if !r.stopped {
			n += len(r.fifo)
		}
	}
	return n
}

// Pending reports whether any handler still has undelivered callbacks.
func (h *ZZHub) Pending() bool {
	for _, r := range h.Regs {
		if !r.stopped && len(r.fifo) > 0 {
			return true
		}
	}
	for _, r := range h.NsRegs {
		if !r.stopped && len(r.fifo) > 0 {
			return true
		}
	}
	return false
}

// StopAll ends the delivery threads.
func (h *ZZHub) StopAll() {
	for _, r := range h.Regs {
		r.stopped = true
	}
	for _, r := range h.NsRegs {
		r.stopped = true
	}
}
