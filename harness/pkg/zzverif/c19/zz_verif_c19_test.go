package c19

// C19 — the shell framework dispatches each binding context to exactly one handler.
// Hook scripts are generated that source the working tree's shell_lib.sh (its framework
// path rewritten to $VERIF_REPO/frameworks/shell) and define a chosen subset of handler
// functions, each logging its name and BINDING_CONTEXT_CURRENT_INDEX and returning a scripted
// status. Enumerated: every context type x every subset of that type's candidate handler
// names plus __main__ x three binding names (one with blanks and a shell keyword, taken from
// the documentation's own example), singly and in arrays of 2-3 with a failing or missing
// handler at each position; plus `--config`. Real bash and jq.

import (
	"encoding/json"
	"fmt"
	"os"
	"os/exec"
	"path/filepath"
	"strings"
	"testing"

	"github.com/flant/shell-operator/pkg/zzverif/vres"
)

type ctxShape struct {
	id   string
	json func(binding string) map[string]any
	cand func(binding string) []string
}

func shapes() []ctxShape {
	k := func(b, suffix string) string { return "__on_kubernetes::" + b + suffix }
	return []ctxShape{
		{"onStartup", func(string) map[string]any { return map[string]any{"binding": "onStartup"} }, func(string) []string { return []string{"__on_startup"} }},
		{"Synchronization", func(b string) map[string]any {
			return map[string]any{"binding": b, "type": "Synchronization", "objects": []any{}}
		}, func(b string) []string { return []string{k(b, "::synchronization"), k(b, "")} }},
		{"Added", func(b string) map[string]any {
			return map[string]any{"binding": b, "type": "Event", "watchEvent": "Added", "object": map[string]any{}}
		}, func(b string) []string { return []string{k(b, "::added"), k(b, "::added_or_modified"), k(b, "")} }},
		{"Modified", func(b string) map[string]any {
			return map[string]any{"binding": b, "type": "Event", "watchEvent": "Modified", "object": map[string]any{}}
		}, func(b string) []string { return []string{k(b, "::modified"), k(b, "::added_or_modified"), k(b, "")} }},
		{"Deleted", func(b string) map[string]any {
			return map[string]any{"binding": b, "type": "Event", "watchEvent": "Deleted", "object": map[string]any{}}
		}, func(b string) []string { return []string{k(b, "::deleted"), k(b, "")} }},
		{"Group", func(b string) map[string]any {
			return map[string]any{"binding": b, "type": "Group", "groupName": "grp", "snapshots": map[string]any{}}
		}, func(string) []string { return []string{"__on_group::grp"} }},
		{"Schedule", func(b string) map[string]any { return map[string]any{"binding": b, "type": "Schedule"} },
			func(b string) []string { return []string{"__on_schedule::" + b} }},
		{"Validating", func(b string) map[string]any {
			return map[string]any{"binding": b, "type": "Validating", "review": map[string]any{}}
		}, func(b string) []string { return []string{"__on_validating::" + b} }},
		{"Mutating", func(b string) map[string]any {
			return map[string]any{"binding": b, "type": "Mutating", "review": map[string]any{}}
		}, func(b string) []string { return []string{"__on_mutating::" + b} }},
		{"Conversion", func(b string) map[string]any {
			return map[string]any{"binding": b, "type": "Conversion", "fromVersion": "example.com/v1", "toVersion": "example.com/v2", "review": map[string]any{}}
		}, func(b string) []string {
			return []string{"__on_conversion::" + b + "::example.com.v1::example.com.v2", "__on_conversion::" + b}
		}},
		// a Synchronization with a few hundred objects: a context of some hundred kilobytes
		{"SynchronizationBig", func(b string) map[string]any {
			var objs []any
			pad := strings.Repeat("x", 1000)
			for i := 0; i < 300; i++ {
				objs = append(objs, map[string]any{"object": map[string]any{"metadata": map[string]any{"name": fmt.Sprintf("o%d", i)}, "data": map[string]any{"pad": pad}}})
			}
			return map[string]any{"binding": b, "type": "Synchronization", "objects": objs}
		}, func(b string) []string { return []string{k(b, "::synchronization"), k(b, "")} }},
		// contexts without a type (configVersion v0 hooks): no typed candidates, __main__ serves them
		{"Typeless", func(b string) map[string]any { return map[string]any{"binding": b} }, func(string) []string { return nil }},
		{"TypelessKube", func(b string) map[string]any {
			return map[string]any{"binding": b, "resourceEvent": "add", "resourceKind": "pod", "resourceName": "p", "resourceNamespace": "default"}
		}, func(string) []string { return nil }},
	}
}

// definable: can a bash function with this name be defined at all. Names with blanks cannot;
// for names with characters that are special to the shell the real bash is asked (under the
// library's own shell options): the definition as the generated hooks write it, then the
// look-up the framework itself uses.
var (
	definableCache = map[string]bool{}
	probeLib       string
)

func definable(name string) bool {
	if strings.ContainsAny(name, " \t") {
		return false
	}
	if !strings.ContainsAny(name, "*?[]%\\$'\";-") {
		return true
	}
	if v, ok := definableCache[name]; ok {
		return v
	}
	script := "source " + probeLib + "\nfunction " + name + "() { :; }\ndeclare -F -- " + sq(name) + " >/dev/null && echo ZZDEFINABLE\n"
	f, err := os.CreateTemp(filepath.Dir(probeLib), "probe-*.sh")
	if err != nil {
		panic(err)
	}
	_, _ = f.WriteString(script)
	f.Close()
	defer os.Remove(f.Name())
	out, _ := exec.Command("bash", f.Name()).CombinedOutput()
	v := strings.Contains(string(out), "ZZDEFINABLE")
	definableCache[name] = v
	return v
}

// sq quotes a string for the shell.
func sq(s string) string { return "'" + strings.ReplaceAll(s, "'", `'\''`) + "'" }

type c19env struct {
	dir string
	lib string
}

func setup() *c19env {
	base := os.TempDir()
	if st, err := os.Stat("/dev/shm"); err == nil && st.IsDir() {
		base = "/dev/shm"
	}
	dir, err := os.MkdirTemp(base, "zzverif-c19-")
	if err != nil {
		panic(err)
	}
	repo := os.Getenv("VERIF_REPO")
	if repo == "" {
		repo = "/repo"
	}
	src, err := os.ReadFile(filepath.Join(repo, "shell_lib.sh"))
	if err != nil {
		panic(err)
	}
	lib := strings.ReplaceAll(string(src), "/frameworks/shell/", filepath.Join(repo, "frameworks/shell")+"/")
	libPath := filepath.Join(dir, "shell_lib.sh")
	if err := os.WriteFile(libPath, []byte(lib), 0o644); err != nil {
		panic(err)
	}
	probeLib = libPath
	return &c19env{dir, libPath}
}

type handlerDef struct {
	name   string
	status int
}

// run executes one generated hook; returns the trace lines and the exit status.
func (e *c19env) run(id int, defs []handlerDef, contexts []map[string]any, args ...string) ([]string, int, string) {
	var sb strings.Builder
	trace := filepath.Join(e.dir, fmt.Sprintf("trace-%d", id))
	_ = os.Remove(trace)
	sb.WriteString("#!/bin/bash\nsource " + e.lib + "\n")
	sb.WriteString("function __config__() { echo 'configVersion: v1'; }\n")
	for _, d := range defs {
		if d.status == -3 {
			// a handler that leaves with `exit 0`: it succeeded, the run goes on with the next context
			sb.WriteString(fmt.Sprintf("function %s() { printf '%%s %%s\\n' %s \"${BINDING_CONTEXT_CURRENT_INDEX}\" >> %s; exit 0; }\n", d.name, sq(d.name), trace))
			continue
		}
		if d.status == -4 {
			// a handler that switches strict mode off for itself: that is its own business
			sb.WriteString(fmt.Sprintf("function %s() { set +e; printf '%%s %%s\\n' %s \"${BINDING_CONTEXT_CURRENT_INDEX}\" >> %s; false; return 0; }\n", d.name, sq(d.name), trace))
			continue
		}
		if d.status == -2 {
			// a handler that reads its standard input to the end (kubectl apply -f -, cat, read ...)
			sb.WriteString(fmt.Sprintf("function %s() { printf '%%s %%s\\n' %s \"${BINDING_CONTEXT_CURRENT_INDEX}\" >> %s; cat > /dev/null; return 0; }\n", d.name, sq(d.name), trace))
			continue
		}
		if d.status < 0 {
			// a failure in strict mode: a command in the middle of the handler fails; the library's
			// `set -e` must end the handler (and the run) there
			sb.WriteString(fmt.Sprintf("function %s() { printf '%%s %%s\\n' %s \"${BINDING_CONTEXT_CURRENT_INDEX}\" >> %s; cat /nonexistent/zzverif 2>/dev/null; printf '%%s %%s\\n' %s \"${BINDING_CONTEXT_CURRENT_INDEX}\" >> %s; return 0; }\n", d.name, sq(d.name), trace, sq(d.name+"-continued-after-failed-command"), trace))
			continue
		}
		sb.WriteString(fmt.Sprintf("function %s() { printf '%%s %%s\\n' %s \"${BINDING_CONTEXT_CURRENT_INDEX}\" >> %s; return %d; }\n", d.name, sq(d.name), trace, d.status))
	}
	sb.WriteString("hook::run \"$@\"\n")
	hook := filepath.Join(e.dir, fmt.Sprintf("hook-%d.sh", id))
	_ = os.WriteFile(hook, []byte(sb.String()), 0o755)
	ctxPath := filepath.Join(e.dir, fmt.Sprintf("ctx-%d.json", id))
	b, _ := json.Marshal(contexts)
	_ = os.WriteFile(ctxPath, b, 0o644)
	cmd := exec.Command("bash", append([]string{hook}, args...)...)
	cmd.Env = append(os.Environ(), "BINDING_CONTEXT_PATH="+ctxPath)
	out, err := cmd.CombinedOutput()
	code := 0
	if err != nil {
		if ee, ok := err.(*exec.ExitError); ok {
			code = ee.ExitCode()
		} else {
			code = -1
		}
	}
	tr, _ := os.ReadFile(trace)
	var lines []string
	for _, l := range strings.Split(strings.TrimSpace(string(tr)), "\n") {
		if l != "" {
			lines = append(lines, l)
		}
	}
	return lines, code, string(out)
}

type ctxCase struct {
	shape   ctxShape
	binding string
	defined map[string]int // handler name -> status
}

func expected(cases []ctxCase) (trace []string, ok bool) {
	for i, c := range cases {
		cands := append(c.shape.cand(c.binding), "__main__")
		found := false
		for _, h := range cands {
			if st, def := c.defined[h]; def {
				trace = append(trace, fmt.Sprintf("%s %d", h, i))
				found = true
				if st != 0 && st != -2 && st != -3 && st != -4 {
					return trace, false
				}
				break
			}
		}
		if !found {
			return trace, false
		}
	}
	return trace, true
}

func TestVerifC19(t *testing.T) {
	r := vres.New("c19")
	defer r.Finish()
	env := setup()
	defer os.RemoveAll(env.dir)
	bindings := []string{"pods", "my-binding", "Monitor pods in cache tier"}
	// names with characters that mean something to the shell: a binding name is any string
	special := []string{"a*b", "50%-full", "pods[0]", `back\slash`}
	if vres.Thorough() {
		special = append(special, "what?", "100%", "$HOME", "it's", `q"uote`, "semi;colon", "* * * * *")
	}
	bindings = append(bindings, special...)
	shs := shapes()
	r.Bound("context_types", len(shs))
	r.Bound("binding_names", bindings)
	var ord int64
	id := 0
	eval := func(key string, cases []ctxCase) {
		ord++
		if !(vres.Mine(ord) || r.Replaying()) {
			return
		}
		if !r.Want(key) {
			return
		}
		id++
		// union of defined handlers (a later context may define the same name: same status)
		defs := map[string]int{}
		for _, c := range cases {
			for h, st := range c.defined {
				defs[h] = st
			}
		}
		var dl []handlerDef
		for h, st := range defs {
			dl = append(dl, handlerDef{h, st})
		}
		var ctxs []map[string]any
		for _, c := range cases {
			ctxs = append(ctxs, c.shape.json(c.binding))
		}
		// every context sees the union of definitions: recompute expectation with the union
		for i := range cases {
			cases[i].defined = defs
		}
		wantTrace, wantOK := expected(cases)
		got, code, out := env.run(id, dl, ctxs)
		r.Eval(1)
		r.Transition(int64(len(cases)))
		blank := ""
		for _, c := range cases {
			if strings.Contains(c.binding, " ") {
				blank = " binding-with-blanks"
			} else if strings.ContainsAny(c.binding, "*?[]%\\$'\";") {
				blank = " binding-with-shell-characters"
			}
		}
		if strings.Join(got, ";") != strings.Join(wantTrace, ";") {
			r.Violation("C19 dispatch"+blank, key, fmt.Sprintf("handlers invoked %v, want %v (exit %d)\n%s", got, wantTrace, code, tail(out)), nil)
			r.Outcome("V:dispatch", true)
			return
		}
		if wantOK != (code == 0) {
			r.Violation("C19 exit-status"+blank, key, fmt.Sprintf("exit status %d, want success=%v; handlers %v\n%s", code, wantOK, got, tail(out)), nil)
			r.Outcome("V:exit", true)
			return
		}
		oc := fmt.Sprintf("%v|%v", got, wantOK)
		r.State(key)
		r.Outcome(oc, len(cases) > 1 || len(defs) > 1)
		r.Sample(map[string]any{"case": key, "handlers_defined": fmt.Sprint(defs), "invoked": got, "success": wantOK})
	}
	// --config
	if vres.Mine(0) || r.Replaying() {
		if r.Want("--config") {
			id++
			got, code, out := env.run(id, nil, []map[string]any{}, "--config")
			r.Eval(1)
			if code != 0 || !strings.Contains(out, "configVersion: v1") || len(got) != 0 {
				r.Violation("C19 config", "--config", fmt.Sprintf("hook::run --config: exit %d output %q handlers %v", code, out, got), nil)
			}
		}
	}
	// single contexts: every subset of candidates + __main__, all succeeding
	for _, sh := range shs {
		for _, b := range bindings {
			if sh.id == "onStartup" && b != "pods" {
				continue
			}
			cands := append(sh.cand(b), "__main__")
			var usable []string
			for _, h := range cands {
				if definable(h) {
					usable = append(usable, h)
				}
			}
			for mask := 0; mask < 1<<len(usable); mask++ {
				def := map[string]int{}
				var names []string
				for i, h := range usable {
					if mask&(1<<i) != 0 {
						def[h] = 0
						names = append(names, h)
					}
				}
				eval(fmt.Sprintf("single|%s|%s|%v", sh.id, b, names), []ctxCase{{sh, b, def}})
				// the chosen handler fails
				if len(names) > 0 {
					def2 := map[string]int{}
					for _, h := range names {
						def2[h] = 0
					}
					def2[names[0]] = 3
					eval(fmt.Sprintf("single-fail|%s|%s|%v", sh.id, b, names), []ctxCase{{sh, b, def2}})
					def3 := map[string]int{}
					for _, h := range names {
						def3[h] = 0
					}
					def3[names[0]] = -1
					eval(fmt.Sprintf("single-strict-fail|%s|%s|%v", sh.id, b, names), []ctxCase{{sh, b, def3}})
				}
			}
		}
		if r.Expired() {
			return
		}
	}
	// arrays of 2-3 contexts of different types, with a failing or missing handler at each position
	pick := []int{1, 2, 4, 5, 6, 9, 10, 11, 12}
	if !vres.Thorough() {
		pick = []int{1, 2, 6, 11}
	}
	arrayNames := []string{"pods", "Monitor pods in cache tier"}
	if vres.Thorough() {
		arrayNames = append(arrayNames, "a*b")
	}
	for _, b := range arrayNames {
		for _, i1 := range pick {
			for _, i2 := range pick {
				for _, i3 := range append([]int{-1}, pick...) {
					idx := []int{i1, i2}
					if i3 >= 0 {
						idx = append(idx, i3)
					}
					for bad := -1; bad < len(idx); bad++ {
						for _, how := range []string{"fail", "missing", "strict", "stdin", "exit0", "set+e-then-strict"} {
							if bad < 0 && how != "fail" {
								continue
							}
							var cases []ctxCase
							names := []string{}
							for pos, si := range idx {
								sh := shs[si]
								// handler: the least specific candidate when definable, else __main__ is relied upon
								c := sh.cand(b)
								h := "__main__"
								if len(c) > 0 {
									h = c[len(c)-1]
								}
								badStatus := 5
								if how == "strict" {
									badStatus = -1
								}
								if how == "stdin" {
									badStatus = -2 // not a failure: the handler at this position reads its stdin
								}
								if how == "exit0" {
									badStatus = -3 // not a failure: the handler at this position leaves with exit 0
								}
								if how == "set+e-then-strict" {
									badStatus = -4 // not a failure; the NEXT position then fails in strict mode (below)
								}
								def := map[string]int{}
								if definable(h) {
									if pos == bad && how == "missing" {
										// nothing defined for this context
									} else if pos == bad {
										def[h] = badStatus
									} else if how == "set+e-then-strict" && pos == bad+1 {
										def[h] = -1 // the next context's handler fails in strict mode: the run stops there
									} else {
										def[h] = 0
									}
								} else {
									// only __main__ can serve a binding with blanks
									if !(pos == bad && how == "missing") {
										st := 0
										if pos == bad {
											st = badStatus
										}
										def["__main__"] = st
									}
								}
								names = append(names, sh.id)
								cases = append(cases, ctxCase{sh, b, def})
							}
							// with blanks every context is served by the one __main__: a per-position status is not expressible, keep only consistent cases
							if strings.Contains(b, " ") || !definable("__on_schedule::"+b) {
								if bad > 0 {
									continue
								}
							} else if sameHandlerDifferentStatus(cases) {
								continue
							}
							eval(fmt.Sprintf("array|%s|%v|bad=%d|%s", b, names, bad, how), cases)
						}
					}
				}
			}
			if r.Expired() {
				return
			}
		}
	}
	// long arrays: every context of a run with 9, 10, 12 and 25 contexts is dispatched, in order
	for _, n := range []int{9, 10, 12, 25} {
		var cases []ctxCase
		for i := 0; i < n; i++ {
			sh := shs[[]int{6, 2, 1}[i%3]]
			c := sh.cand("pods")
			cases = append(cases, ctxCase{sh, "pods", map[string]int{c[len(c)-1]: 0}})
		}
		eval(fmt.Sprintf("long|%d", n), cases)
	}
}

func sameHandlerDifferentStatus(cases []ctxCase) bool {
	seen := map[string]int{}
	defined := map[string]bool{}
	for _, c := range cases {
		for h, st := range c.defined {
			if prev, ok := seen[h]; ok && prev != st {
				return true
			}
			seen[h] = st
			defined[h] = true
		}
	}
	// a context meant to have no handler must not be served by another context's definition
	for _, c := range cases {
		if len(c.defined) == 0 {
			for _, h := range append(c.shape.cand(c.binding), "__main__") {
				if defined[h] {
					return true
				}
			}
		}
	}
	return false
}

func tail(s string) string {
	if len(s) > 600 {
		return s[len(s)-600:]
	}
	return s
}
