package executor

// Process seam of the verification harness (added by build overlay only): executor.go is
// compiled with `e.cmd.Run()` / `e.cmd.Output()` routed through these functions. When no
// stand-in is installed, or the stand-in does not handle the command, the real process runs.

import (
	"errors"
	"os/exec"
)

// ZZStandIn, when set, is offered every hook command. It returns handled=false to let the
// real process run. exit != 0 is reported to the caller the way a failing process is.
var ZZStandIn func(cmd *exec.Cmd) (handled bool, stdout []byte, stderr []byte, exit int)

type zzExitError struct{ code int }

func (e *zzExitError) Error() string { return "exit status " + itoa(e.code) }

func itoa(i int) string {
	if i == 0 {
		return "0"
	}
	s := ""
	for i > 0 {
		s = string(rune('0'+i%10)) + s
		i /= 10
	}
	return s
}

func zzCmdRun(cmd *exec.Cmd) error {
	if f := ZZStandIn; f != nil {
		if ok, out, errOut, code := f(cmd); ok {
			if cmd.Stdout != nil && len(out) > 0 {
				_, _ = cmd.Stdout.Write(out)
			}
			if cmd.Stderr != nil && len(errOut) > 0 {
				_, _ = cmd.Stderr.Write(errOut)
			}
			if code != 0 {
				return &zzExitError{code}
			}
			return nil
		}
	}
	return cmd.Run()
}

func zzCmdOutput(cmd *exec.Cmd) ([]byte, error) {
	if f := ZZStandIn; f != nil {
		if ok, out, _, code := f(cmd); ok {
			if code != 0 {
				return out, &zzExitError{code}
			}
			return out, nil
		}
	}
	return cmd.Output()
}

var _ = errors.New
