package hook

// C20 part b — hooks are named by relative path, loaded in lexical order, asked for --config
// exactly once; a failing / invalid --config fails initialization naming the hook.
// Manager.Init runs on generated hook directories with real executable /bin/sh hooks that log
// every --config call; for every choice of one hook whose --config exits 1 or prints an
// invalid configuration Init must fail with an error naming it.

import (
	"fmt"
	"os"
	"path/filepath"
	"sort"
	"strings"
	"testing"

	"github.com/deckhouse/deckhouse/pkg/log"

	"github.com/flant/shell-operator/pkg/zzverif/vres"
)

func c20bBase() string {
	if st, err := os.Stat("/dev/shm"); err == nil && st.IsDir() {
		return "/dev/shm"
	}
	return os.TempDir()
}

// layouts: relative paths of executable hooks plus noise that must not be loaded
var c20bLayouts = [][]string{
	{"a.sh"},
	{"b.sh", "a.sh"},
	{"common/x.sh", "common.sh"},                    // walk order differs from lexical path order
	{"10-net/a", "10-net.d/b", "10-net.sh"},
	{"002-z/hook", "001-a/hook", "001-a/sub/hook"},
	{"z", "a/z", "a/a/z"},
	{"same/h", "other/h", "h"},                       // name collisions across directories
	{"A.sh", "a.sh", "B.sh"},                         // case
	{"x y.sh", "x.sh"},                               // a blank in the name
}

var c20bNoise = []struct {
	rel  string
	mode os.FileMode
}{{"lib/helper.sh", 0o755}, {".hidden/h.sh", 0o755}, {"notes.md", 0o755}, {"cfg.yaml", 0o755}, {"plain.sh", 0o644}, {"sub/lib/deep.sh", 0o755}}

// c20bViaSymlink: the hooks directory is handed to the manager through a symbolic link in its
// path (current -> volumes/rev-1, /var/run style paths): names stay relative to the directory given
var c20bViaSymlink bool

func c20bRun(layout []string, bad int, badKind string) (sig, what, outcome string) {
	base, err := os.MkdirTemp(c20bBase(), "zzverif-c20b-")
	if err != nil {
		panic(err)
	}
	defer os.RemoveAll(base)
	dir := filepath.Join(base, "hooks")
	given := dir // the path the manager is given
	if c20bViaSymlink {
		dir = filepath.Join(base, "volumes", "rev-1", "hooks")
		_ = os.MkdirAll(filepath.Join(base, "volumes", "rev-1"), 0o755)
		if err := os.Symlink(filepath.Join("volumes", "rev-1"), filepath.Join(base, "current")); err != nil {
			panic(err)
		}
		given = filepath.Join(base, "current", "hooks")
	}
	logf := filepath.Join(base, "config-calls.log")
	write := func(rel string, mode os.FileMode, body string) {
		p := filepath.Join(dir, rel)
		_ = os.MkdirAll(filepath.Dir(p), 0o755)
		if err := os.WriteFile(p, []byte(body), mode); err != nil {
			panic(err)
		}
		_ = os.Chmod(p, mode)
	}
	for i, rel := range layout {
		answer := `echo '{"configVersion":"v1","onStartup":` + fmt.Sprint(i+1) + `}'`
		if i == bad {
			switch badKind {
			case "exit1":
				answer = "exit 1"
			case "exit127+stderr":
				answer = "echo 'kubectl: command not found' >&2; exit 127"
			case "exit2+stdout+stderr":
				answer = `echo '{"configVersion":"v1"}'; echo 'something went wrong' >&2; exit 2`
			case "invalid":
				answer = `echo '{"configVersion":"v1","noSuchBinding":true}'`
			case "invalid+stderr":
				answer = `echo 'warning: deprecated' >&2; echo '{"configVersion":"v1","noSuchBinding":true}'`
			case "not-json-or-yaml":
				answer = `echo '{"configVersion": "v1", '`
			}
		}
		write(rel, 0o755, "#!/bin/sh\nif [ \"$1\" = \"--config\" ]; then echo \"$0\" >> "+logf+"; "+answer+"; exit $?; fi\nexit 0\n")
	}
	for _, n := range c20bNoise {
		write(n.rel, n.mode, "#!/bin/sh\necho \"$0\" >> "+logf+"\necho '{\"configVersion\":\"v1\",\"onStartup\":1}'\n")
	}
	hm := NewHookManager(&ManagerConfig{WorkingDir: given, TempDir: base, Logger: log.NewNop()})
	initErr := hm.Init()
	callsRaw, _ := os.ReadFile(logf)
	calls := map[string]int{}
	for _, l := range strings.Split(strings.TrimSpace(string(callsRaw)), "\n") {
		if l != "" {
			r, _ := filepath.Rel(given, l)
			calls[r]++
		}
	}
	sorted := append([]string{}, layout...)
	sort.Strings(sorted)
	if bad >= 0 {
		if initErr == nil {
			return "C20b bad-config-accepted kind=" + badKind, fmt.Sprintf("hook %s: --config %s but Init succeeded", layout[bad], badKind), ""
		}
		if !strings.Contains(initErr.Error(), layout[bad]) {
			return "C20b error-does-not-name-hook kind=" + badKind, fmt.Sprintf("hook %s fails its --config (%s), the error does not name it: %v", layout[bad], badKind, initErr), ""
		}
		for rel, n := range calls {
			if n > 1 {
				return "C20b config-called-twice", fmt.Sprintf("%s was asked for --config %d times", rel, n), ""
			}
		}
		return "", "", "failed:" + layout[bad]
	}
	if initErr != nil {
		return "C20b init-failed", initErr.Error(), ""
	}
	names := hm.GetHookNames()
	if strings.Join(names, "|") != strings.Join(sorted, "|") {
		return "C20b names-or-order", fmt.Sprintf("hooks loaded as %q, want %q (relative paths in lexical order)", names, sorted), ""
	}
	for _, rel := range sorted {
		if calls[rel] != 1 {
			return "C20b config-call-count", fmt.Sprintf("%s was asked for --config %d times, want once", rel, calls[rel]), ""
		}
		if h := hm.GetHook(rel); h == nil || h.Path != filepath.Join(given, rel) {
			return "C20b hook-path", fmt.Sprintf("hook %s not registered under its relative path", rel), ""
		}
	}
	for rel := range calls {
		found := false
		for _, s := range sorted {
			if s == rel {
				found = true
			}
		}
		if !found {
			return "C20b config-asked-of-non-hook", fmt.Sprintf("%s is not a hook but was executed with --config", rel), ""
		}
	}
	// startup order by (order, path): orders are 1..n in layout order
	return "", "", strings.Join(names, "|")
}

func TestVerifC20b(t *testing.T) {
	r := vres.New("c20b")
	defer r.Finish()
	r.Bound("layouts", len(c20bLayouts))
	kinds := []string{"exit1", "invalid", "exit127+stderr", "exit2+stdout+stderr", "invalid+stderr", "not-json-or-yaml"}
	r.Bound("bad_config_kinds", kinds)
	var ord int64
	for li, layout := range c20bLayouts {
		// every permutation of the creation order matters not; every choice of the failing hook does
		type cs struct {
			bad  int
			kind string
		}
		cases := []cs{{-1, ""}}
		for i := range layout {
			for _, k := range kinds {
				cases = append(cases, cs{i, k})
			}
		}
		for _, c := range cases {
			ord++
			if !(vres.Mine(ord) || r.Replaying()) {
				continue
			}
			key := fmt.Sprintf("layout=%d|bad=%d|%s", li, c.bad, c.kind)
			if !r.Want(key) {
				continue
			}
			sig, what, outcome := c20bRun(layout, c.bad, c.kind)
			if sig == "" && (c.bad < 0 || c.kind == "exit1" || c.kind == "invalid") {
				// the same through a symbolic link in the hooks directory's path
				c20bViaSymlink = true
				sig2, what2, outcome2 := c20bRun(layout, c.bad, c.kind)
				c20bViaSymlink = false
				if sig2 != "" {
					sig, what = sig2+" hooks-dir=via-symlink", what2
				} else if outcome2 != outcome {
					sig, what = "C20b hooks-dir-via-symlink-differs", fmt.Sprintf("layout %v: %s directly, %s through a symbolic link", layout, outcome, outcome2)
				}
			}
			r.Eval(1)
			r.Transition(int64(len(layout)))
			if sig != "" {
				r.Violation(sig, key, what, nil)
				r.Outcome("V:"+sig, true)
				continue
			}
			r.State(key)
			r.Outcome(fmt.Sprintf("%d|%s", li, outcome), c.bad >= 0 || len(layout) > 1)
			r.Sample(map[string]any{"layout": layout, "failing_hook": c.bad, "kind": c.kind, "result": outcome})
		}
	}
}
