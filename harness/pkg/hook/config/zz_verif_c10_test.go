package config

// C10 — hook config: valid configs load faithfully, invalid ones are rejected, no crash.
// (a) Valid configurations generated from the documented grammar (the option product of a
//     kubernetes binding; schedule / onStartup / settings / admission / conversion bindings;
//     multi-binding shapes exercising names, groups and includeSnapshotsFrom), each rendered as
//     JSON and as YAML: both must load, to effective configurations equal to each other and to
//     the reference computed from the option vector (declared order, defaults, group merge).
// (b) Every single-fault mutation from the fault classes the statement names must be rejected.
// (c) No crash: all byte strings up to length 3 over a structural alphabet, every prefix and
//     single-byte substitution of valid documents.

import (
	"encoding/json"
	"fmt"
	"sort"
	"strings"
	"testing"

	"github.com/deckhouse/deckhouse/pkg/log"
	"sigs.k8s.io/yaml"

	kemtypes "github.com/flant/shell-operator/pkg/kube_events_manager/types"
	"github.com/flant/shell-operator/pkg/zzverif/vres"
)

func init() { log.SetDefault(log.NewNop()) }

// ---- option vectors of a kubernetes binding ----

type kopt struct {
	name, apiVersion                      int
	onEvent, watchEvent                   int
	onSync, keepFull, waitSync, allowFail int
	queue, group, jq                      int
	nameSel, ns, labelSel, fieldSel, incl int
}

var koptRadix = []int{2, 2, 5, 2, 3, 3, 2, 2, 2, 2, 2, 2, 3, 3, 2, 2}

func koptFrom(d []int) kopt {
	return kopt{d[0], d[1], d[2], d[3], d[4], d[5], d[6], d[7], d[8], d[9], d[10], d[11], d[12], d[13], d[14], d[15]}
}

var eventSets = [][]string{nil, {}, {"Added"}, {"Added", "Deleted"}, {"Added", "Modified", "Deleted"}}

// render returns the binding as a generic map (what the hook prints) and the reference
// effective values.
type kref struct {
	Name, Queue, Group, ApiVersion, Jq   string
	Events                               []string
	OnSync, KeepFull, WaitSync, AllowFail bool
	Names, NsNames                        []string
	NsLabels, Labels, Field               string
	Include                               []string
}

func (o kopt) render() (map[string]any, kref, bool) {
	m := map[string]any{"kind": "ConfigMap"}
	r := kref{Name: "kubernetes", Queue: "main", OnSync: true, KeepFull: true, WaitSync: true}
	if o.name == 1 {
		m["name"] = "kb"
		r.Name = "kb"
	}
	if o.apiVersion == 1 {
		m["apiVersion"] = "v1"
		r.ApiVersion = "v1"
	}
	r.Events = []string{"Added", "Modified", "Deleted"}
	if o.watchEvent == 1 {
		m["watchEvent"] = []string{"Modified"}
		r.Events = []string{"Modified"}
	}
	if o.onEvent > 0 {
		m["executeHookOnEvent"] = eventSets[o.onEvent]
		r.Events = append([]string{}, eventSets[o.onEvent]...)
	}
	tri := func(key string, v int, dst *bool) {
		if v == 1 {
			m[key] = true
			*dst = true
		} else if v == 2 {
			m[key] = false
			*dst = false
		}
	}
	tri("executeHookOnSynchronization", o.onSync, &r.OnSync)
	tri("keepFullObjectsInMemory", o.keepFull, &r.KeepFull)
	if o.queue == 1 {
		m["queue"] = "q2"
		r.Queue = "q2"
	}
	if o.waitSync == 1 {
		m["waitForSynchronization"] = false
		r.WaitSync = o.queue != 1 // can be disabled only for named queues
	}
	if o.allowFail == 1 {
		m["allowFailure"] = true
		r.AllowFail = true
	}
	if o.group == 1 {
		m["group"] = "g"
		r.Group = "g"
	}
	if o.jq == 1 {
		m["jqFilter"] = ".data"
		r.Jq = ".data"
	}
	if o.nameSel == 1 {
		m["nameSelector"] = map[string]any{"matchNames": []string{"a", "b"}}
		r.Names = []string{"a", "b"}
	}
	switch o.ns {
	case 1:
		m["namespace"] = map[string]any{"nameSelector": map[string]any{"matchNames": []string{"n1"}}}
		r.NsNames = []string{"n1"}
	case 2:
		m["namespace"] = map[string]any{"labelSelector": map[string]any{"matchLabels": map[string]any{"env": "prod"}}}
		r.NsLabels = "env=prod"
	}
	switch o.labelSel {
	case 1:
		m["labelSelector"] = map[string]any{"matchLabels": map[string]any{"app": "x"}}
		r.Labels = "app=x"
	case 2:
		m["labelSelector"] = map[string]any{"matchExpressions": []any{map[string]any{"key": "tier", "operator": "In", "values": []string{"a", "b"}}}}
		r.Labels = "tier in (a,b)"
	}
	if o.fieldSel == 1 {
		if o.nameSel == 1 {
			return nil, r, false // metadata.name fieldSelector and matchNames are mutually exclusive: not a valid config
		}
		m["fieldSelector"] = map[string]any{"matchExpressions": []any{map[string]any{"field": "metadata.name", "operator": "Equals", "value": "x"}}}
		r.Field = "metadata.name=x"
	}
	if o.incl == 1 {
		m["includeSnapshotsFrom"] = []string{r.Name}
		r.Include = []string{r.Name}
	}
	if r.Group != "" {
		// bindings sharing a group receive the snapshots of every kubernetes binding of that group
		found := false
		for _, x := range r.Include {
			if x == r.Name {
				found = true
			}
		}
		if !found {
			r.Include = append(r.Include, r.Name)
		}
	}
	return m, r, true
}

// effective renders the loaded kubernetes binding i in the same shape as kref.
func effectiveK(c *HookConfig, i int) kref {
	k := c.OnKubernetesEvents[i]
	r := kref{Name: k.BindingName, Queue: k.Queue, Group: k.Group, ApiVersion: k.Monitor.ApiVersion, Jq: k.Monitor.JqFilter,
		OnSync: k.ExecuteHookOnSynchronization, KeepFull: k.KeepFullObjectsInMemory && k.Monitor.KeepFullObjectsInMemory, WaitSync: k.WaitForSynchronization, AllowFail: k.AllowFailure,
		Include: k.IncludeSnapshotsFrom}
	if k.KeepFullObjectsInMemory != k.Monitor.KeepFullObjectsInMemory {
		r.Name += "!keepFull-mismatch"
	}
	r.Events = []string{}
	for _, e := range k.Monitor.EventTypes {
		r.Events = append(r.Events, string(e))
	}
	if k.Monitor.NameSelector != nil {
		r.Names = k.Monitor.NameSelector.MatchNames
	}
	if ns := k.Monitor.NamespaceSelector; ns != nil {
		if ns.NameSelector != nil {
			r.NsNames = ns.NameSelector.MatchNames
		}
		if ns.LabelSelector != nil {
			r.NsLabels = fmt.Sprint(labelString(ns.LabelSelector.MatchLabels, nil))
		}
	}
	if ls := k.Monitor.LabelSelector; ls != nil {
		var ex []string
		for _, e := range ls.MatchExpressions {
			ex = append(ex, fmt.Sprintf("%s %s (%s)", e.Key, strings.ToLower(string(e.Operator)), strings.Join(e.Values, ",")))
		}
		r.Labels = labelString(ls.MatchLabels, ex)
	}
	if fs := k.Monitor.FieldSelector; fs != nil {
		var p []string
		for _, e := range fs.MatchExpressions {
			op := "="
			if e.Operator == "!=" || e.Operator == "NotEquals" {
				op = "!="
			}
			p = append(p, e.Field+op+e.Value)
		}
		r.Field = strings.Join(p, ",")
	}
	return r
}

func labelString(m map[string]string, exprs []string) string {
	var p []string
	for k, v := range m {
		p = append(p, k+"="+v)
	}
	sort.Strings(p)
	return strings.Join(append(p, exprs...), ",")
}

func normRef(r kref) string {
	if r.Events == nil {
		r.Events = []string{}
	}
	b, _ := json.Marshal(r)
	return string(b)
}

func loadBoth(doc map[string]any) (cj, cy *HookConfig, ej, ey error, pj, py any) {
	jb, _ := json.Marshal(doc)
	yb, _ := yaml.Marshal(doc)
	load := func(b []byte) (c *HookConfig, err error, pan any) {
		defer func() { pan = recover() }()
		c = &HookConfig{}
		err = c.LoadAndValidate(b)
		return
	}
	cj, ej, pj = load(jb)
	cy, ey, py = load(yb)
	return
}

func TestVerifC10a(t *testing.T) {
	r := vres.New("c10a")
	defer r.Finish()
	total := 1
	for _, x := range koptRadix {
		total *= x
	}
	stride := vres.Pick(37, 1)
	r.Bound("kubernetes_option_vectors_total", total)
	r.Bound("enumerated", fmt.Sprintf("every %d-th vector of the product in mixed-radix order", stride))
	var ord int64
	for idx := 0; idx < total; idx += stride {
		ord++
		if !(vres.Mine(ord) || r.Replaying()) {
			continue
		}
		d := make([]int, len(koptRadix))
		v := idx
		for i := len(koptRadix) - 1; i >= 0; i-- {
			d[i] = v % koptRadix[i]
			v /= koptRadix[i]
		}
		key := fmt.Sprintf("kopt=%v", d)
		if !r.Want(key) {
			continue
		}
		o := koptFrom(d)
		m, ref, valid := o.render()
		if !valid {
			continue
		}
		doc := map[string]any{"configVersion": "v1", "kubernetes": []any{m}}
		cj, cy, ej, ey, pj, py := loadBoth(doc)
		r.Eval(1)
		r.Transition(2)
		if pj != nil || py != nil {
			r.Violation("C10a panic", key, fmt.Sprint(pj, py), nil)
			continue
		}
		if ej != nil || ey != nil {
			enc := "json"
			if ej == nil {
				enc = "yaml"
			}
			b, _ := json.Marshal(doc)
			r.Violation("C10a valid-config-rejected encoding="+enc, key, fmt.Sprintf("%s: json err %v, yaml err %v", b, ej, ey), nil)
			r.Outcome("V:rejected", true)
			continue
		}
		if len(cj.OnKubernetesEvents) != 1 || len(cy.OnKubernetesEvents) != 1 {
			r.Violation("C10a binding-count", key, "", nil)
			continue
		}
		gj, gy, want := normRef(effectiveK(cj, 0)), normRef(effectiveK(cy, 0)), normRef(ref)
		if gj != gy {
			r.Violation("C10a json-yaml-differ", key, fmt.Sprintf("json %s\nyaml %s", gj, gy), nil)
			r.Outcome("V:differ", true)
			continue
		}
		if gj != want {
			r.Violation("C10a effective-config "+diffField(gj, want), key, fmt.Sprintf("loaded %s\nwant   %s", gj, want), nil)
			r.Outcome("V:effective", true)
			continue
		}
		r.State(gj)
		r.Outcome(gj, idx > 0)
		r.Sample(map[string]any{"option_vector": fmt.Sprint(d), "effective": gj})
		if r.Expired() {
			return
		}
	}
	// multi-binding shapes, other binding kinds
	if s, _ := vres.Shard(); s == 0 || r.Replaying() {
		c10shapes(r)
	}
}

func diffField(a, b string) string {
	var ma, mb map[string]any
	_ = json.Unmarshal([]byte(a), &ma)
	_ = json.Unmarshal([]byte(b), &mb)
	var ks []string
	for k := range ma {
		x, _ := json.Marshal(ma[k])
		y, _ := json.Marshal(mb[k])
		if string(x) != string(y) {
			ks = append(ks, k)
		}
	}
	sort.Strings(ks)
	return "field=" + strings.Join(ks, "+")
}

// c10shapes: declared order, names, groups, includeSnapshotsFrom across bindings and kinds.
func c10shapes(r *vres.R) {
	rules := []any{map[string]any{"operations": []string{"*"}, "apiGroups": []string{""}, "apiVersions": []string{"v1"}, "resources": []string{"configmaps"}}}
	type shape struct {
		name string
		doc  map[string]any
		want string
	}
	k := func(name, group string, incl ...string) map[string]any {
		m := map[string]any{"kind": "ConfigMap"}
		if name != "" {
			m["name"] = name
		}
		if group != "" {
			m["group"] = group
		}
		if len(incl) > 0 {
			m["includeSnapshotsFrom"] = incl
		}
		return m
	}
	shapes := []shape{
		{"order-and-defaults", map[string]any{"configVersion": "v1", "onStartup": 7, "kubernetes": []any{k("b", ""), k("a", ""), k("c", "")},
			"schedule": []any{map[string]any{"crontab": "* * * * *"}, map[string]any{"name": "s2", "crontab": "*/5 * * * *", "queue": "q", "allowFailure": true}}},
			"startup=7|k:b/main//[] k:a/main//[] k:c/main//[]|s:schedule/main/false//[] s:s2/q/true//[]"},
		{"group-merge", map[string]any{"configVersion": "v1", "kubernetes": []any{k("k1", "g"), k("k2", "g", "k3"), k("k3", "")},
			"schedule":             []any{map[string]any{"name": "s", "crontab": "* * * * *", "group": "g"}},
			"kubernetesValidating": []any{map[string]any{"name": "v.example.com", "group": "g", "rules": rules}}},
			"startup=-|k:k1/main/g/[k1 k2] k:k2/main/g/[k3 k1 k2] k:k3/main//[]|s:s/main/false/g/[k1 k2]|v:v.example.com/g/[k1 k2]"},
		{"includes-everywhere", map[string]any{"configVersion": "v1", "kubernetes": []any{k("k1", ""), k("k2", "", "k1", "k2")},
			"schedule":                           []any{map[string]any{"name": "s", "crontab": "* * * * *", "includeSnapshotsFrom": []string{"k2", "k1"}}},
			"kubernetesMutating":                 []any{map[string]any{"name": "m.example.com", "includeSnapshotsFrom": []string{"k1"}, "rules": rules}},
			"kubernetesCustomResourceConversion": []any{map[string]any{"name": "c", "crdName": "x.example.com", "includeSnapshotsFrom": []string{"k2"}, "conversions": []any{map[string]any{"fromVersion": "v1", "toVersion": "v2"}}}},
			"settings":                           map[string]any{"executionMinInterval": "3s", "executionBurst": 2}},
			"startup=-|k:k1/main//[] k:k2/main//[k1 k2]|s:s/main/false//[k2 k1]|m:m.example.com//[k1]|c:c//[k2]|settings=3s/2"},
		// bindings of one group keep the queue each of them declares
		{"group-with-different-queues", map[string]any{"configVersion": "v1",
			"kubernetes": []any{func() map[string]any { m := k("k1", "g"); m["queue"] = "q1"; return m }(), k("k2", "g")},
			"schedule": []any{map[string]any{"name": "s1", "crontab": "* * * * *", "group": "g", "queue": "q2"}, map[string]any{"name": "s2", "crontab": "* * * * *", "group": "g"}}},
			"startup=-|k:k1/q1/g/[k1 k2] k:k2/main/g/[k1 k2]|s:s1/q2/false/g/[k1 k2] s:s2/main/false/g/[k1 k2]"},
		// names are optional and need not be unique: two unnamed bindings of one group load
		{"group-of-unnamed", map[string]any{"configVersion": "v1", "kubernetes": []any{k("", "g"), func() map[string]any { m := k("", "g"); m["kind"] = "Pod"; return m }()},
			"schedule": []any{map[string]any{"name": "s", "crontab": "* * * * *", "group": "g"}}},
			"?"},
		// onStartup: 0 is a declared binding with order 0, not an absent one
		{"onstartup-zero", map[string]any{"configVersion": "v1", "onStartup": 0, "schedule": []any{map[string]any{"name": "s", "crontab": "* * * * *"}}},
			"startup=0||s:s/main/false//[]"},
		// configVersion v0 (no configVersion key): default names of unnamed bindings, onStartup 0
		{"v0-defaults", map[string]any{"onStartup": 0, "schedule": []any{map[string]any{"crontab": "* * * * *"}, map[string]any{"name": "s2", "crontab": "*/5 * * * *", "allowFailure": true}},
			"onKubernetesEvent": []any{map[string]any{"kind": "ConfigMap"}, map[string]any{"name": "named", "kind": "Pod", "event": []string{"add"}}}},
			"startup=0|k:onKubernetesEvent/main//[] k:named/main//[]|s:schedule/main/false//[] s:s2/main/true//[]"},
	}
	render := func(c *HookConfig) string {
		var parts []string
		if c.OnStartup != nil {
			parts = append(parts, fmt.Sprintf("startup=%v", c.OnStartup.Order))
		} else {
			parts = append(parts, "startup=-")
		}
		var ks []string
		for _, b := range c.OnKubernetesEvents {
			ks = append(ks, fmt.Sprintf("k:%s/%s/%s/%v", b.BindingName, b.Queue, b.Group, nz(b.IncludeSnapshotsFrom)))
		}
		parts = append(parts, strings.Join(ks, " "))
		var ss []string
		for _, b := range c.Schedules {
			ss = append(ss, fmt.Sprintf("s:%s/%s/%v/%s/%v", b.BindingName, b.Queue, b.AllowFailure, b.Group, nz(b.IncludeSnapshotsFrom)))
		}
		if len(ss) > 0 {
			parts = append(parts, strings.Join(ss, " "))
		}
		for _, b := range c.KubernetesValidating {
			parts = append(parts, fmt.Sprintf("v:%s/%s/%v", b.BindingName, b.Group, nz(b.IncludeSnapshotsFrom)))
		}
		for _, b := range c.KubernetesMutating {
			parts = append(parts, fmt.Sprintf("m:%s/%s/%v", b.BindingName, b.Group, nz(b.IncludeSnapshotsFrom)))
		}
		for _, b := range c.KubernetesConversion {
			parts = append(parts, fmt.Sprintf("c:%s/%s/%v", b.BindingName, b.Group, nz(b.IncludeSnapshotsFrom)))
		}
		if c.Settings != nil {
			parts = append(parts, fmt.Sprintf("settings=%s/%d", c.Settings.ExecutionMinInterval, c.Settings.ExecutionBurst))
		}
		return strings.Join(parts, "|")
	}
	for _, s := range shapes {
		key := "shape:" + s.name
		if !r.Want(key) {
			continue
		}
		cj, cy, ej, ey, pj, py := loadBoth(s.doc)
		r.Eval(1)
		if pj != nil || py != nil || ej != nil || ey != nil {
			r.Violation("C10a shape-rejected", key, fmt.Sprint(pj, py, ej, ey), nil)
			continue
		}
		if render(cj) != render(cy) {
			r.Violation("C10a json-yaml-differ", key, render(cj)+"\n"+render(cy), nil)
			continue
		}
		if s.want == "?" {
			// only "loads, and JSON and YAML agree" is checked for this shape
			r.Outcome(render(cj), true)
			continue
		}
		if render(cj) != s.want {
			r.Violation("C10a shape-effective-config", key, fmt.Sprintf("loaded %s\nwant   %s", render(cj), s.want), nil)
			continue
		}
		r.Outcome(render(cj), true)
	}
}

func nz(s []string) []string {
	if s == nil {
		return []string{}
	}
	return s
}

// ---- (b) single-fault mutations ----

func TestVerifC10b(t *testing.T) {
	r := vres.New("c10b")
	defer r.Finish()
	rules := `[{"operations":["*"],"apiGroups":[""],"apiVersions":["v1"],"resources":["configmaps"]}]`
	base := `{"configVersion":"v1","onStartup":1,
 "settings":{"executionMinInterval":"3s","executionBurst":1},
 "schedule":[{"name":"s","crontab":"* * * * *","includeSnapshotsFrom":["kb"]}],
 "kubernetes":[{"name":"kb","kind":"ConfigMap","nameSelector":{"matchNames":["a"]},"namespace":{"labelSelector":{"matchLabels":{"a":"b"}}},"labelSelector":{"matchExpressions":[{"key":"k","operator":"In","values":["v"]}]}},
               {"name":"k2","kind":"Pod","fieldSelector":{"matchExpressions":[{"field":"status.phase","operator":"Equals","value":"Running"}]},"includeSnapshotsFrom":["kb"]}],
 "kubernetesValidating":[{"name":"v.example.com","rules":` + rules + `,"namespace":{"labelSelector":{"matchLabels":{"a":"b"}}},"labelSelector":{"matchLabels":{"a":"b"}}}],
 "kubernetesMutating":[{"name":"m.example.com","rules":` + rules + `,"namespace":{"labelSelector":{"matchLabels":{"a":"b"}}},"labelSelector":{"matchLabels":{"a":"b"}}}],
 "kubernetesCustomResourceConversion":[{"name":"c","crdName":"x.example.com","conversions":[{"fromVersion":"v1","toVersion":"v2"}]}]}`
	var doc map[string]any
	if err := json.Unmarshal([]byte(base), &doc); err != nil {
		panic(err)
	}
	// the base itself must load
	type mut struct {
		class string
		name  string
		apply func(d map[string]any)
	}
	at := func(d map[string]any, path ...any) any {
		var cur any = d
		for _, p := range path {
			switch x := p.(type) {
			case string:
				cur = cur.(map[string]any)[x]
			case int:
				cur = cur.([]any)[x]
			}
		}
		return cur
	}
	var muts []mut
	// unknown field at every nesting level
	levels := [][]any{{}, {"settings"}, {"schedule", 0}, {"kubernetes", 0}, {"kubernetes", 0, "nameSelector"}, {"kubernetes", 0, "namespace"}, {"kubernetes", 0, "namespace", "labelSelector"},
		{"kubernetes", 0, "labelSelector"}, {"kubernetes", 0, "labelSelector", "matchExpressions", 0}, {"kubernetes", 1, "fieldSelector"}, {"kubernetes", 1, "fieldSelector", "matchExpressions", 0},
		{"kubernetesValidating", 0}, {"kubernetesValidating", 0, "rules", 0}, {"kubernetesValidating", 0, "namespace"}, {"kubernetesMutating", 0}, {"kubernetesMutating", 0, "rules", 0}, {"kubernetesMutating", 0, "namespace"},
		{"kubernetesCustomResourceConversion", 0}}
	for _, lv := range levels {
		lv := lv
		muts = append(muts, mut{"unknown-field", fmt.Sprint("at ", lv), func(d map[string]any) { at(d, lv...).(map[string]any)["noSuchField"] = "x" }})
	}
	muts = append(muts,
		mut{"bad-crontab", "too few fields", func(d map[string]any) { at(d, "schedule", 0).(map[string]any)["crontab"] = "* * *" }},
		mut{"bad-crontab", "bad value", func(d map[string]any) { at(d, "schedule", 0).(map[string]any)["crontab"] = "61 * * * *" }},
		mut{"unknown-include", "schedule", func(d map[string]any) { at(d, "schedule", 0).(map[string]any)["includeSnapshotsFrom"] = []any{"nope"} }},
		mut{"unknown-include", "kubernetes", func(d map[string]any) { at(d, "kubernetes", 1).(map[string]any)["includeSnapshotsFrom"] = []any{"nope"} }},
		mut{"unknown-include", "validating", func(d map[string]any) { at(d, "kubernetesValidating", 0).(map[string]any)["includeSnapshotsFrom"] = []any{"nope"} }},
		mut{"unknown-include", "mutating", func(d map[string]any) { at(d, "kubernetesMutating", 0).(map[string]any)["includeSnapshotsFrom"] = []any{"nope"} }},
		mut{"unknown-include", "conversion", func(d map[string]any) {
			at(d, "kubernetesCustomResourceConversion", 0).(map[string]any)["includeSnapshotsFrom"] = []any{"nope"}
		}},
		mut{"ambiguous-include", "two bindings named kb", func(d map[string]any) { at(d, "kubernetes", 1).(map[string]any)["name"] = "kb" }},
		mut{"invalid-selector", "kubernetes labelSelector In without values", func(d map[string]any) {
			delete(at(d, "kubernetes", 0, "labelSelector", "matchExpressions", 0).(map[string]any), "values")
		}},
		mut{"invalid-selector", "kubernetes labelSelector bad label value", func(d map[string]any) {
			at(d, "kubernetes", 0).(map[string]any)["labelSelector"] = map[string]any{"matchLabels": map[string]any{"a": "not a valid value!"}}
		}},
		mut{"invalid-selector", "kubernetes labelSelector Exists with values", func(d map[string]any) {
			at(d, "kubernetes", 0, "labelSelector", "matchExpressions", 0).(map[string]any)["operator"] = "Exists"
		}},
		mut{"invalid-selector", "validating labelSelector bad value", func(d map[string]any) {
			at(d, "kubernetesValidating", 0).(map[string]any)["labelSelector"] = map[string]any{"matchLabels": map[string]any{"a": "not valid!"}}
		}},
		mut{"invalid-selector", "validating namespace.labelSelector bad value", func(d map[string]any) {
			at(d, "kubernetesValidating", 0, "namespace").(map[string]any)["labelSelector"] = map[string]any{"matchLabels": map[string]any{"a": "not valid!"}}
		}},
		mut{"invalid-selector", "mutating labelSelector bad value", func(d map[string]any) {
			at(d, "kubernetesMutating", 0).(map[string]any)["labelSelector"] = map[string]any{"matchLabels": map[string]any{"a": "not valid!"}}
		}},
		mut{"invalid-selector", "mutating namespace.labelSelector bad value", func(d map[string]any) {
			at(d, "kubernetesMutating", 0, "namespace").(map[string]any)["labelSelector"] = map[string]any{"matchLabels": map[string]any{"a": "not valid!"}}
		}},
		mut{"invalid-selector", "mutating namespace.labelSelector In without values", func(d map[string]any) {
			at(d, "kubernetesMutating", 0, "namespace").(map[string]any)["labelSelector"] = map[string]any{"matchExpressions": []any{map[string]any{"key": "k", "operator": "In"}}}
		}},
		mut{"invalid-selector", "fieldSelector unknown operator", func(d map[string]any) {
			at(d, "kubernetes", 1, "fieldSelector", "matchExpressions", 0).(map[string]any)["operator"] = "Like"
		}},
		mut{"invalid-selector", "fieldSelector metadata.name together with matchNames", func(d map[string]any) {
			at(d, "kubernetes", 0).(map[string]any)["fieldSelector"] = map[string]any{"matchExpressions": []any{map[string]any{"field": "metadata.name", "operator": "Equals", "value": "x"}}}
		}},
		mut{"unsupported-version", "v2", func(d map[string]any) { d["configVersion"] = "v2" }},
		mut{"unsupported-version", "number", func(d map[string]any) { d["configVersion"] = 1 }},
		mut{"unsupported-version", "null", func(d map[string]any) { d["configVersion"] = nil }},
		mut{"unsupported-version", "missing with v1 fields", func(d map[string]any) { delete(d, "configVersion") }},
	)
	// an included name is unknown also when the hook has no kubernetes binding at all
	for _, kind := range []string{"schedule", "kubernetesValidating", "kubernetesMutating", "kubernetesCustomResourceConversion"} {
		kind := kind
		muts = append(muts, mut{"unknown-include", kind + " in a hook without kubernetes bindings", func(d map[string]any) {
			delete(d, "kubernetes")
			for _, k := range []string{"schedule", "kubernetesValidating", "kubernetesMutating", "kubernetesCustomResourceConversion"} {
				delete(at(d, k, 0).(map[string]any), "includeSnapshotsFrom")
			}
			at(d, kind, 0).(map[string]any)["includeSnapshotsFrom"] = []any{"pods"}
		}})
	}
	// metadata.name in a fieldSelector excludes nameSelector.matchNames whatever the operator and
	// wherever the expression stands in the list
	for _, op := range []string{"NotEquals", "!=", "==", "="} {
		op := op
		muts = append(muts, mut{"invalid-selector", "fieldSelector metadata.name " + op + " together with matchNames", func(d map[string]any) {
			at(d, "kubernetes", 0).(map[string]any)["fieldSelector"] = map[string]any{"matchExpressions": []any{
				map[string]any{"field": "status.phase", "operator": "Equals", "value": "Running"},
				map[string]any{"field": "metadata.name", "operator": op, "value": "x"}}}
		}})
	}
	r.Bound("fault_classes", []string{"unknown-field", "bad-crontab", "unknown-include", "ambiguous-include", "invalid-selector", "unsupported-version"})
	r.Bound("mutations", len(muts))
	load := func(b []byte) (err error, pan any) {
		defer func() { pan = recover() }()
		c := &HookConfig{}
		err = c.LoadAndValidate(b)
		return
	}
	if err, pan := load([]byte(base)); err != nil || pan != nil {
		r.Violation("C10b base-rejected", "base", fmt.Sprint(err, pan), nil)
		return
	}
	for i, m := range muts {
		if !(vres.Mine(int64(i)) || r.Replaying()) {
			continue
		}
		key := m.class + ": " + m.name
		if !r.Want(key) {
			continue
		}
		var d map[string]any
		_ = json.Unmarshal([]byte(base), &d)
		m.apply(d)
		jb, _ := json.Marshal(d)
		yb, _ := yaml.Marshal(d)
		for enc, b := range map[string][]byte{"json": jb, "yaml": yb} {
			err, pan := load(b)
			r.Eval(1)
			r.Transition(1)
			if pan != nil {
				r.Violation("C10b panic", key, fmt.Sprint(pan), nil)
				continue
			}
			if err == nil {
				r.Violation("C10b accepted class="+m.class, key+" ("+enc+")", "the mutated configuration was accepted: "+string(jb), nil)
				r.Outcome("V:"+key, true)
				continue
			}
			r.State(key + enc)
			r.Outcome(m.class+"|"+m.name, true)
			r.Sample(map[string]any{"mutation": key, "encoding": enc, "error": firstLine(err.Error())})
		}
	}
	_ = kemtypes.WatchEventAdded
}

func firstLine(s string) string {
	if i := strings.IndexByte(s, '\n'); i >= 0 {
		s = s[:i]
	}
	if len(s) > 200 {
		s = s[:200]
	}
	return s
}

// ---- (c) no crash ----

func TestVerifC10c(t *testing.T) {
	r := vres.New("c10c")
	defer r.Finish()
	alphabet := []byte("{}[]:,\"- \nax1#")
	docs := []string{
		"configVersion: v1\nonStartup: 1\n",
		`{"configVersion":"v1","schedule":[{"crontab":"* * * * *"}]}`,
		"configVersion: v1\nkubernetes:\n- kind: Pod\n  jqFilter: .a\n  namespace:\n    nameSelector:\n      matchNames: [a]\n",
		`{"onStartup": 3, "onKubernetesEvent": [{"kind": "pod", "event": ["add"]}]}`,
		"configVersion: v1\nsettings:\n  executionMinInterval: 3s\n  executionBurst: 1\nonStartup: 2\n",
		"configVersion: v1\nkubernetesCustomResourceConversion:\n- name: c\n  crdName: x\n  conversions:\n  - fromVersion: a\n    toVersion: b\n",
	}
	depth := 3
	r.Bound("alphabet", string(alphabet))
	r.Bound("max_length", depth)
	r.Bound("seed_documents", len(docs))
	var ord int64
	try := func(key string, b []byte) {
		ord++
		if !(vres.Mine(ord) || r.Replaying()) {
			return
		}
		if !r.Want(key) {
			return
		}
		var pan any
		var err error
		func() {
			defer func() { pan = recover() }()
			c := &HookConfig{}
			err = c.LoadAndValidate(b)
		}()
		r.Eval(1)
		r.Transition(1)
		if pan != nil {
			r.Violation("C10c panic", key, fmt.Sprintf("input %q: %v", b, pan), nil)
			r.Outcome("V:panic", true)
			return
		}
		if err == nil {
			r.Outcome("loaded", true)
			r.State("loaded:" + string(b))
		} else {
			r.Outcome("rejected", len(b) > 0)
		}
	}
	var rec func(prefix []byte)
	rec = func(prefix []byte) {
		try(fmt.Sprintf("bytes:%q", prefix), prefix)
		if len(prefix) == depth {
			return
		}
		for _, c := range alphabet {
			rec(append(append([]byte{}, prefix...), c))
		}
	}
	rec(nil)
	for di, d := range docs {
		for i := 0; i <= len(d); i++ {
			try(fmt.Sprintf("doc%d:prefix%d", di, i), []byte(d[:i]))
		}
		for i := 0; i < len(d); i++ {
			for _, c := range alphabet {
				b := []byte(d)
				b[i] = c
				try(fmt.Sprintf("doc%d:subst%d:%q", di, i, c), b)
			}
			if r.Expired() {
				return
			}
		}
	}
	r.Sample(map[string]any{"example_inputs": []string{"{a:", "configVersion: v1\\nonStartu", "[[["}})
}
