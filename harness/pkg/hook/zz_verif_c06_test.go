package hook

// C06 part a — onStartup hooks are ordered by (ORDER, path).
// GetHooksInOrder(OnStartup) on a real Manager filled the way Init() fills it (hooks
// appended in lexical path order): every assignment of ORDER in {1,2,3} to N = 1..10 hooks
// and every assignment of ORDER in {1,2} to N = 13..16 hooks (the sizes at which Go's
// sort.Slice leaves its insertion-sort regime and stops being stable).

import (
	"fmt"
	"strings"
	"testing"

	"github.com/deckhouse/deckhouse/pkg/log"

	"github.com/flant/shell-operator/pkg/hook/config"
	htypes "github.com/flant/shell-operator/pkg/hook/types"
	"github.com/flant/shell-operator/pkg/zzverif/vres"
)

func c06manager(orders []int) *Manager {
	hm := NewHookManager(&ManagerConfig{Logger: log.NewNop()})
	for i, o := range orders {
		name := fmt.Sprintf("hook-%02d.sh", i) // lexical order = index order
		h := NewHook(name, "/hooks/"+name, false, false, "", log.NewNop())
		h.Config = &config.HookConfig{OnStartup: &htypes.OnStartupConfig{Order: float64(o)}}
		h.Config.OnStartup.BindingName = "onStartup"
		hm.hooksByName[name] = h
		hm.hookNamesInOrder = append(hm.hookNamesInOrder, name)
		hm.hooksInOrder[htypes.OnStartup] = append(hm.hooksInOrder[htypes.OnStartup], h)
	}
	return hm
}

func c06check(r *vres.R, orders []int) {
	key := fmt.Sprint(orders)
	if !r.Want(key) {
		return
	}
	hm := c06manager(orders)
	names, err := hm.GetHooksInOrder(htypes.OnStartup)
	r.Eval(1)
	r.Transition(1)
	if err != nil {
		r.Violation("C06a error", key, err.Error(), nil)
		return
	}
	// reference: stable by ORDER over the path-sorted list
	var want []string
	for o := 1; o <= 3; o++ {
		for i, x := range orders {
			if x == o {
				want = append(want, fmt.Sprintf("hook-%02d.sh", i))
			}
		}
	}
	if strings.Join(names, ",") != strings.Join(want, ",") {
		cls := "n<=12"
		if len(orders) > 12 {
			cls = "n>12"
		}
		r.Violation("C06a onstartup-order "+cls, key, fmt.Sprintf("ORDER values %v (by path): got %v, want %v", orders, names, want), nil)
		r.Outcome("V", true)
		return
	}
	ties := false
	seen := map[int]bool{}
	for _, o := range orders {
		if seen[o] {
			ties = true
		}
		seen[o] = true
	}
	r.State(key)
	r.Outcome(strings.Join(names, ","), ties)
	r.Sample(map[string]any{"orders_by_path": orders, "startup_order": names})
}

func TestVerifC06a(t *testing.T) {
	r := vres.New("c06a")
	defer r.Finish()
	maxSmall := vres.Pick(9, 10)
	bigSizes := []int{13, 14}
	if vres.Thorough() {
		bigSizes = []int{13, 14, 15, 16, 17}
	}
	r.Bound("small_sizes", fmt.Sprintf("1..%d with ORDER in {1,2,3}", maxSmall))
	r.Bound("big_sizes", fmt.Sprintf("%v with ORDER in {1,2}", bigSizes))
	var ord int64
	enum := func(n, base int) {
		cur := make([]int, n)
		for i := range cur {
			cur[i] = 1
		}
		for {
			ord++
			if vres.Mine(ord) || r.Replaying() {
				c06check(r, append([]int{}, cur...))
			}
			i := n - 1
			for i >= 0 {
				cur[i]++
				if cur[i] <= base {
					break
				}
				cur[i] = 1
				i--
			}
			if i < 0 || r.Expired() {
				return
			}
		}
	}
	for n := 1; n <= maxSmall; n++ {
		enum(n, 3)
	}
	for _, n := range bigSizes {
		enum(n, 2)
	}
}
