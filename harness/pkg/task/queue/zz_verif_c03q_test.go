package queue

// C03 part q — queues are independent at the queue SET as well. The operator-level part drives
// what shell-operator itself does with the set (GetByName, DoWithLock, NewNamedQueue, Iterate);
// the set is a public component with more entry points (Remove, Add, Stop of one queue), used
// by programs built on this library. Here the real TaskQueueSet with three started queues runs
// under the controlled scheduler: the worker of queue `slow` sits in a handler that does not
// return (a slow hook), an administrative thread issues one operation on the set, the events
// handler's way of adding a task (DoWithLock + AddLast) puts a task into `other`, and a task of
// `third` looks its own queue up from inside its handler (as taskHandleHookRun does).
// Oracle: both tasks are handled while `slow` is still stalled - whatever the set operation and
// the interleaving (at most 2 quick / 3 thorough deviations from the deterministic default scheduler; idle workers poll on the virtual clock, so the horizons are a few virtual seconds).

import (
	"context"
	"fmt"
	"strings"
	"testing"
	"time"

	"github.com/flant/shell-operator/pkg/task"
	"github.com/flant/shell-operator/pkg/zzverif/vres"
	"github.com/flant/shell-operator/pkg/zzverif/vrt"
)

func TestVerifC03q(t *testing.T) {
	r := vres.New("c03q")
	defer r.Finish()
	bound := vres.Pick(2, 3)
	r.Bound("deviation_bound", bound)
	ops := []string{"none", "Remove(slow)", "Remove(idle)", "Remove(absent)", "NewNamedQueue(new)", "Iterate", "DoWithLock", "GetByName(slow)", "Stop-of-slow"}
	r.Bound("set_operations", ops)
	for i, opName := range ops {
		if !(vres.Mine(int64(i)) || r.Replaying()) {
			continue
		}
		opName := opName
		var handled map[string]bool
		var progressed, finished bool
		var handledThen string
		var slowCalls int
		body := func(x *vrt.Exec) {
			handled = map[string]bool{}
			progressed, finished, slowCalls = false, false, 0
			ctx, cancel := context.WithCancel(context.Background())
			defer cancel()
			tqs := NewTaskQueueSet()
			tqs.WithContext(ctx)
			released := false
			tqs.NewNamedQueue("slow", func(tk task.Task) TaskResult {
				slowCalls++
				vrt.Wait("slow-hook", func() bool { return released })
				return TaskResult{Status: Success}
			})
			tqs.NewNamedQueue("other", func(tk task.Task) TaskResult {
				handled["other"] = true
				return TaskResult{Status: Success}
			})
			tqs.NewNamedQueue("third", func(tk task.Task) TaskResult {
				if tqs.GetByName("third") == nil {
					panic("queue third is not in the set")
				}
				handled["third"] = true
				return TaskResult{Status: Success}
			})
			tqs.NewNamedQueue("idle", func(tk task.Task) TaskResult { return TaskResult{Status: Success} })
			vrt.Atomic(func() { tqs.GetByName("slow").AddLast(c05task("s1", 1)) })
			tqs.Start()
			vrt.WaitFor("slow-in-handler", time.Minute, func() bool { return slowCalls > 0 })
			vrt.GoNamed("admin", func() {
				switch opName {
				case "Remove(slow)":
					tqs.Remove("slow")
				case "Remove(idle)":
					tqs.Remove("idle")
				case "Remove(absent)":
					tqs.Remove("no-such-queue")
				case "NewNamedQueue(new)":
					tqs.NewNamedQueue("new", func(tk task.Task) TaskResult { return TaskResult{Status: Success} })
				case "Iterate":
					tqs.Iterate(func(q *TaskQueue) { _ = q.Length() })
				case "DoWithLock":
					tqs.DoWithLock(func(s *TaskQueueSet) { _ = len(s.Queues) })
				case "GetByName(slow)":
					if q := tqs.GetByName("slow"); q != nil {
						_ = q.Length()
					}
				case "Stop-of-slow":
					if q := tqs.GetByName("slow"); q != nil {
						q.Stop()
					}
				}
			})
			vrt.GoNamed("events", func() {
				tqs.DoWithLock(func(s *TaskQueueSet) {
					if q, ok := s.Queues["other"]; ok {
						q.AddLast(c05task("o1", 2))
					}
				})
				if q := tqs.GetByName("third"); q != nil {
					q.AddLast(c05task("t1", 3))
				}
			})
			progressed = vrt.WaitFor("others-handled", 3*time.Second, func() bool { return handled["other"] && handled["third"] })
			handledThen = fmt.Sprint(handled)
			released = true
			finished = vrt.WaitFor("all-quiet", 3*time.Second, func() bool {
				q1, q2 := tqs.GetByName("other"), tqs.GetByName("third")
				return q1 != nil && q2 != nil && q1.IsEmpty() && q2.IsEmpty() && handled["other"] && handled["third"]
			})
			tqs.Stop()
		}
		ex := &vrt.Explorer{Opts: vrt.Options{Bound: bound, MaxSteps: 50000, DelayBound: true}, Deadline: r.Deadline()}
		ex.Check = func(x *vrt.Exec) {
			key := fmt.Sprintf("%s|%v", opName, x.Choices)
			r.Eval(1)
			r.Transition(int64(x.Steps))
			if len(x.Panics) > 0 {
				r.Violation("C03q panic op="+opName, key, strings.Join(x.Panics, "\n"), nil)
				return
			}
			if x.End == "deadlock" {
				r.Violation("C03q deadlock op="+opName, key, strings.Join(x.Blocked, "; "), nil)
				return
			}
			if x.End != "done" {
				r.Violation("C03q no-progress op="+opName, key, "execution ended with "+x.End+": "+strings.Join(x.Blocked, "; "), nil)
				return
			}
			if !progressed {
				r.Violation("C03q stalled-queue-delays-others op="+opName, key, fmt.Sprintf("while the handler of queue `slow` did not return and %s was issued on the set, three (virtual) seconds passed with handled=%s (handled after the release: %v)", opName, handledThen, handled), nil)
				r.Outcome("V", true)
				return
			}
			if !finished {
				r.Violation("C03q tasks-left op="+opName, key, fmt.Sprintf("handled=%v but the queues did not drain", handled), nil)
				return
			}
			r.State(opName)
			r.Outcome(opName, x.Devs() > 0)
		}
		if r.Replaying() {
			parts := strings.SplitN(r.OnlyCase(), "|[", 2)
			if len(parts) != 2 || parts[0] != opName {
				continue
			}
			var choices []int
			for _, f := range strings.Fields(strings.Trim(parts[1], "[]")) {
				var v int
				fmt.Sscan(f, &v)
				choices = append(choices, v)
			}
			opts := ex.Opts
			ex.Check(vrt.Run(&opts, choices, nil, body))
			continue
		}
		ex.Explore(body)
		if ex.Stats.Capped != "" {
			r.Cap(opName + ":" + ex.Stats.Capped)
		}
	}
}
