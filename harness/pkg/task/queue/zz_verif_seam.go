package queue

// Handler seam (added by build overlay only). task_queue.go is compiled with
// (*TaskQueue).WithHandler dispatching to zzSeamWithHandler; the operator-level fixture sets
// ZZHandlerWrap to record begin / end of every task handling per queue. The seam sits where
// every queue gets its handler, whichever way the queue was created (NewNamedQueue or built
// by hand and Add()ed), so the fixture does not depend on call sites in the operator.

import "github.com/flant/shell-operator/pkg/task"

// ZZHandlerWrap, when set, wraps every handler given to a queue.
var ZZHandlerWrap func(q *TaskQueue, fn func(task.Task) TaskResult) func(task.Task) TaskResult

var zzSeamWithHandler = func(q *TaskQueue, fn func(task.Task) TaskResult) *TaskQueue {
	if ZZHandlerWrap != nil && fn != nil {
		fn = ZZHandlerWrap(q, fn)
	}
	return q.zzOrigWithHandler(fn)
}
