package queue

// C17 part b — a queue worker and the stop request, at the queue itself. The operator-level
// part (pkg/shell-operator) places the shutdown around task and hook events of the operator's
// own traffic, where the only delays between tasks are back-offs of 5 s and more. This part
// drives the real TaskQueue under the controlled scheduler with every kind of handler result
// and every kind of delay between two tasks - DelayOnRepeat, DelayBeforeNextTask shorter and
// longer than the wait loop's check interval, the failure back-off, an empty queue - and
// requests the stop at enumerated virtual instants inside that delay (and inside a handler).
// Oracle: once Stop() has been called while the worker sits in a delay, no handler call begins
// any more; a handler that is running when Stop() is called is the last one; the worker
// reaches its final state at the virtual instant of the request (or of its running handler's
// return) - no timer has to fire first.

import (
	"context"
	"fmt"
	"strings"
	"testing"
	"time"

	"github.com/flant/shell-operator/pkg/task"
	"github.com/flant/shell-operator/pkg/zzverif/vres"
	"github.com/flant/shell-operator/pkg/zzverif/vrt"
)

type c17bResult struct {
	id  string
	res func() TaskResult
	// delay the worker is expected to sit in after this result (for choosing stop offsets)
	delay time.Duration
}

func c17bResults() []c17bResult {
	return []c17bResult{
		{"Success", func() TaskResult { return TaskResult{Status: Success} }, 0},
		{"Success+delay50ms", func() TaskResult { return TaskResult{Status: Success, DelayBeforeNextTask: 50 * time.Millisecond} }, 50 * time.Millisecond},
		{"Success+delay2s", func() TaskResult { return TaskResult{Status: Success, DelayBeforeNextTask: 2 * time.Second} }, 2 * time.Second},
		{"Keep+delay100ms", func() TaskResult { return TaskResult{Status: Keep, DelayBeforeNextTask: 100 * time.Millisecond} }, 100 * time.Millisecond},
		{"Repeat", func() TaskResult { return TaskResult{Status: Repeat} }, 25 * time.Millisecond},
		{"Fail", func() TaskResult { return TaskResult{Status: Fail} }, 5 * time.Second},
	}
}

func TestVerifC17b(t *testing.T) {
	r := vres.New("c17b")
	defer r.Finish()
	bound := vres.Pick(1, 2)
	r.Bound("deviation_bound", bound)
	offsets := []time.Duration{time.Millisecond, 10 * time.Millisecond, 60 * time.Millisecond, 130 * time.Millisecond, time.Second, 3 * time.Second}
	r.Bound("stop_offsets_after_handler_return", fmt.Sprint(offsets))
	var ord int64
	for _, first := range c17bResults() {
		for _, mode := range []string{"in-delay", "in-handler", "empty-queue", "idle+arrival"} {
			for _, off := range offsets {
				if mode == "in-delay" && (first.delay == 0 || off >= first.delay) {
					continue // the stop must land strictly inside the delay
				}
				if mode != "in-delay" && off != offsets[0] {
					continue
				}
				ord++
				if !(vres.Mine(ord) || r.Replaying()) || r.Expired() {
					continue
				}
				first, mode, off := first, mode, off
				name := fmt.Sprintf("%s/%s/stop+%s", first.id, mode, off)
				type obsT struct {
					begins       []string // "task@virtual time"
					stopAt       time.Duration
					stopStep     int
					beginsAfter  []string
					finalAt      time.Duration
					finalSeen    bool
					handlerEndAt time.Duration
					status       string
				}
				var obs *obsT
				body := func(x *vrt.Exec) {
					obs = &obsT{stopAt: -1}
					q := NewTasksQueue()
					ctx, cancel := context.WithCancel(context.Background())
					defer cancel()
					q.WithContext(ctx)
					ntasks := 3
					if mode == "empty-queue" || mode == "idle+arrival" {
						ntasks = 1
					}
					vrt.Atomic(func() {
						for i := 1; i <= ntasks; i++ {
							q.AddLast(c05task(fmt.Sprintf("t%d", i), i))
						}
					})
					calls := 0
					stopRequested := false
					inHandler := false
					firstDone := false
					q.WithHandler(func(tk task.Task) TaskResult {
						calls++
						id := "<nil>"
						if tk != nil {
							id = tk.GetId()
						}
						obs.begins = append(obs.begins, fmt.Sprintf("%s@%s", id, x.Now()))
						if stopRequested {
							obs.beginsAfter = append(obs.beginsAfter, fmt.Sprintf("%s@%s", id, x.Now()))
						}
						if calls == 1 {
							if mode == "in-handler" {
								// the handler is still running when the stop is requested
								inHandler = true
								vrt.Wait("handler-until-stop", func() bool { return stopRequested })
								vrt.SleepVirtual(40 * time.Millisecond)
								inHandler = false
							}
							obs.handlerEndAt = x.Now()
							firstDone = true
							if mode == "empty-queue" || mode == "idle+arrival" {
								return TaskResult{Status: Success}
							}
							return first.res()
						}
						return TaskResult{Status: Success}
					})
					vrt.GoNamed("stopper", func() {
						if mode == "in-handler" {
							vrt.Wait("handler-running", func() bool { return inHandler })
						} else {
							vrt.Wait("first-handled", func() bool { return firstDone })
							vrt.SleepVirtual(off)
						}
						obs.stopAt = x.Now()
						obs.stopStep = x.Steps
						if mode == "idle+arrival" {
							// a task arrives and the stop is requested at the same instant, while the worker of
							// the idle queue is blocked in its wait loop: it had picked nothing
							vrt.Atomic(func() {
								q.AddLast(c05task("late", 99))
								stopRequested = true
								q.Stop()
							})
							return
						}
						stopRequested = true
						q.Stop()
					})
					q.Start()
					// the worker's final state
					obs.finalSeen = vrt.WaitFor("worker-final", time.Minute, func() bool { return stopRequested && q.GetStatus() == "stop" })
					obs.finalAt = x.Now()
					obs.status = q.GetStatus()
					// nothing may happen afterwards either
					vrt.WaitFor("tail", 10*time.Second, func() bool { return false })
				}
				ex := &vrt.Explorer{Opts: vrt.Options{Bound: bound, MaxSteps: 50000, DelayBound: true, SelectDev: true}, Deadline: r.Deadline()}
				ex.Check = func(x *vrt.Exec) {
					key := fmt.Sprintf("%s|%v", name, x.Choices)
					r.Eval(1)
					r.Transition(int64(x.Steps))
					if len(x.Panics) > 0 {
						r.Violation("C17b panic", key, strings.Join(x.Panics, "\n"), nil)
						return
					}
					if x.End != "done" {
						r.Violation("C17b no-progress", key, "execution ended with "+x.End+": "+strings.Join(x.Blocked, "; "), nil)
						return
					}
					if obs.stopAt < 0 {
						r.Violation("C17b scenario", key, "the stop was never requested", nil)
						return
					}
					// The stop is requested at a virtual instant strictly inside the delay (the clock only
					// advances when no thread can run, so no schedule moves it out of the delay), or while
					// the handler is running: in neither case has the worker picked another task.
					if len(obs.beginsAfter) > 0 {
						r.Violation("C17b task-started-after-stop result="+first.id+" mode="+mode, key,
							fmt.Sprintf("%s: Stop() at +%s, handler calls %v, begun after the request: %v", name, obs.stopAt, obs.begins, obs.beginsAfter), nil)
						r.Outcome("V", true)
						return
					}
					if !obs.finalSeen {
						r.Violation("C17b worker-did-not-terminate result="+first.id+" mode="+mode, key, fmt.Sprintf("%s: one minute after Stop() the queue status is %q", name, obs.status), nil)
						return
					}
					want := obs.stopAt
					if mode == "in-handler" {
						want = obs.handlerEndAt
					}
					if x.Devs() == 0 && obs.finalAt != want {
						r.Violation("C17b termination-waits-for-a-timer result="+first.id+" mode="+mode, key,
							fmt.Sprintf("%s: Stop() at +%s (running handler returned at +%s), the worker reached its final state at +%s", name, obs.stopAt, obs.handlerEndAt, obs.finalAt), nil)
						return
					}
					oc := fmt.Sprintf("%s|calls=%d|after=%d|final=+%s", name, len(obs.begins), len(obs.beginsAfter), obs.finalAt-obs.stopAt)
					r.State(oc)
					r.Outcome(oc, x.Devs() > 0)
					r.Sample(map[string]any{"scenario": name, "choices": fmt.Sprint(x.Choices), "handler_calls": obs.begins, "stop_at": obs.stopAt.String(), "final_at": obs.finalAt.String()})
				}
				if r.Replaying() {
					parts := strings.SplitN(r.OnlyCase(), "|", 2)
					if len(parts) != 2 || parts[0] != name {
						continue
					}
					var choices []int
					for _, f := range strings.Fields(strings.Trim(parts[1], "[]")) {
						var v int
						fmt.Sscan(f, &v)
						choices = append(choices, v)
					}
					opts := ex.Opts
					ex.Check(vrt.Run(&opts, choices, nil, body))
					continue
				}
				ex.Explore(body)
				if ex.Stats.Capped != "" {
					r.Cap(name + ":" + ex.Stats.Capped)
				}
			}
		}
	}
}
