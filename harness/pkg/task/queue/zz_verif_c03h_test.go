package queue

// C03 part h — "head first" while the worker sits in a delay. After a handler result that makes
// the worker wait before its next task (failure back-off, DelayOnRepeat, DelayBeforeNextTask
// with Success or Keep) the head of the queue may change through the queue's public API
// (AddFirst, AddBefore, AddLast, Remove, RemoveFirst, Filter, with or without CancelTaskDelay - programs built on this library do that; shell-operator's own
// traffic only appends). The real TaskQueue runs under the controlled scheduler; an
// administrative thread issues one operation at an enumerated virtual instant strictly inside
// the delay (the clock only advances when no thread can run, so no schedule moves the operation
// out of the delay). Oracle: a reference list - the handler calls after the delay are exactly
// the list's tasks, head first: a task put at the head during the delay runs next, a task
// removed during the delay never runs again.

import (
	"context"
	"fmt"
	"strings"
	"testing"
	"time"

	"github.com/flant/shell-operator/pkg/task"
	"github.com/flant/shell-operator/pkg/zzverif/vres"
	"github.com/flant/shell-operator/pkg/zzverif/vrt"
)

func TestVerifC03h(t *testing.T) {
	r := vres.New("c03h")
	defer r.Finish()
	bound := vres.Pick(2, 3)
	r.Bound("deviation_bound", bound)
	offsets := []time.Duration{time.Millisecond, 10 * time.Millisecond, 60 * time.Millisecond, 130 * time.Millisecond, time.Second, 3 * time.Second}
	r.Bound("operation_offsets_after_handler_return", fmt.Sprint(offsets))
	ops := []string{"none", "AddFirst(u)", "Remove(head)", "Filter(drop head)", "AddFirst(u);Remove(old head)", "AddBefore(head,u)", "RemoveFirst()", "AddLast(u)", "AddFirst(u);CancelTaskDelay"}
	r.Bound("operations", ops)
	var ord int64
	for _, first := range c17bResults() {
		if first.delay == 0 {
			continue
		}
		for _, op := range ops {
			for _, off := range offsets {
				if off >= first.delay {
					continue
				}
				ord++
				if !(vres.Mine(ord) || r.Replaying()) || r.Expired() {
					continue
				}
				first, op, off := first, op, off
				name := fmt.Sprintf("%s/%s/+%s", first.id, op, off)
				var begins, want []string
				var opAt, secondAt time.Duration
				var drained bool
				body := func(x *vrt.Exec) {
					begins, want, opAt, secondAt, drained = nil, nil, -1, -1, false
					q := NewTasksQueue()
					ctx, cancel := context.WithCancel(context.Background())
					defer cancel()
					q.WithContext(ctx)
					vrt.Atomic(func() {
						for i := 1; i <= 3; i++ {
							q.AddLast(c05task(fmt.Sprintf("t%d", i), i))
						}
					})
					// reference list after the first handler call
					model := []string{"t1", "t2", "t3"}
					if strings.HasPrefix(first.id, "Success") {
						model = model[1:]
					}
					firstDone, opDone := false, false
					q.WithHandler(func(tk task.Task) TaskResult {
						id := "<nil>"
						if tk != nil {
							id = tk.GetId()
						}
						begins = append(begins, id)
						if len(begins) == 2 {
							secondAt = x.Now()
						}
						if len(begins) == 1 {
							firstDone = true
							return first.res()
						}
						return TaskResult{Status: Success}
					})
					vrt.GoNamed("admin", func() {
						vrt.Wait("first-handled", func() bool { return firstDone })
						vrt.SleepVirtual(off)
						opAt = x.Now()
						head := model[0]
						switch op {
						case "AddFirst(u)":
							q.AddFirst(c05task("u", 9))
							model = append([]string{"u"}, model...)
						case "Remove(head)":
							q.Remove(head)
							model = model[1:]
						case "Filter(drop head)":
							q.Filter(func(tk task.Task) bool { return tk.GetId() != head })
							model = model[1:]
						case "AddBefore(head,u)":
							q.AddBefore(head, c05task("u", 9))
							model = append([]string{"u"}, model...)
						case "RemoveFirst()":
							q.RemoveFirst()
							model = model[1:]
						case "AddLast(u)":
							q.AddLast(c05task("u", 9))
							model = append(model, "u")
						case "AddFirst(u);CancelTaskDelay":
							q.AddFirst(c05task("u", 9))
							model = append([]string{"u"}, model...)
							q.CancelTaskDelay()
						case "AddFirst(u);Remove(old head)":
							q.AddFirst(c05task("u", 9))
							q.Remove(head)
							model = append([]string{"u"}, model[1:]...)
						}
						want = append([]string{"t1"}, model...)
						opDone = true
					})
					q.Start()
					drained = vrt.WaitFor("drained", time.Minute, func() bool { return opDone && q.IsEmpty() })
					q.Stop()
					vrt.WaitFor("tail", 2*time.Second, func() bool { return false })
				}
				ex := &vrt.Explorer{Opts: vrt.Options{Bound: bound, MaxSteps: 50000, DelayBound: true, SelectDev: true}, Deadline: r.Deadline()}
				ex.Check = func(x *vrt.Exec) {
					key := fmt.Sprintf("%s|%v", name, x.Choices)
					r.Eval(1)
					r.Transition(int64(x.Steps))
					if len(x.Panics) > 0 {
						r.Violation("C03h panic", key, strings.Join(x.Panics, "\n"), nil)
						return
					}
					if x.End != "done" {
						r.Violation("C03h no-progress", key, "execution ended with "+x.End+": "+strings.Join(x.Blocked, "; "), nil)
						return
					}
					if opAt < 0 || want == nil {
						r.Violation("C03h scenario", key, "the operation was never issued", nil)
						return
					}
					if secondAt >= 0 && secondAt <= opAt && !strings.Contains(op, "Cancel") {
						// the worker left its delay before the operation: the scenario's premise does not hold
						r.Violation("C03h delay-not-respected result="+first.id, key, fmt.Sprintf("%s: the second handler call began at +%s, the operation was issued at +%s inside a delay of %s", name, secondAt, opAt, first.delay), nil)
						return
					}
					if !drained || fmt.Sprint(begins) != fmt.Sprint(want) {
						r.Violation("C03h not-head-first result="+first.id+" op="+op, key,
							fmt.Sprintf("%s: %s was issued at +%s while the worker was waiting (%s); handler calls %v, the queue as a list gives %v (drained=%v)", name, op, opAt, first.id, begins, want, drained), nil)
						r.Outcome("V", true)
						return
					}
					oc := fmt.Sprintf("%s|%v", name, begins)
					r.State(oc)
					r.Outcome(oc, x.Devs() > 0)
					r.Sample(map[string]any{"scenario": name, "choices": fmt.Sprint(x.Choices), "handler_calls": begins, "op_at": opAt.String()})
				}
				if r.Replaying() {
					parts := strings.SplitN(r.OnlyCase(), "|", 2)
					if len(parts) != 2 || parts[0] != name {
						continue
					}
					var choices []int
					for _, f := range strings.Fields(strings.Trim(parts[1], "[]")) {
						var v int
						fmt.Sscan(f, &v)
						choices = append(choices, v)
					}
					opts := ex.Opts
					ex.Check(vrt.Run(&opts, choices, nil, body))
					continue
				}
				ex.Explore(body)
				if ex.Stats.Capped != "" {
					r.Cap(name + ":" + ex.Stats.Capped)
				}
			}
		}
	}
}
