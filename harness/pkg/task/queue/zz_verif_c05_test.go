package queue

// C05 — the task queue is a faithful list. Bounded exhaustive enumeration of operation
// sequences on the real TaskQueue against a slice reference model.
//
// Part a: every sequence of public operations up to a depth (full enumeration, no state
//         merging, so slice-aliasing effects of earlier operations stay visible) plus a BFS
//         over canonical states to a larger depth.
// Part b: the real Start() worker loop with a scripted handler: every sequence of handler
//         results (status x head/after/tail lists x delay x an operation issued from inside
//         the handler); the reference predicts the queue after each handler return (checked in
//         AfterHandle, i.e. on the worker goroutine after the result has been applied) and
//         the task handed to the next handler call.

import (
	"context"
	"fmt"
	"os"
	"strings"
	"testing"
	"time"

	"github.com/deckhouse/deckhouse/pkg/log"

	"github.com/flant/shell-operator/pkg/task"
	"github.com/flant/shell-operator/pkg/zzverif/vres"
)

func init() {
	os.Setenv("QUEUE_ACTIONS_METRICS", "no")
	log.SetDefault(log.NewNop())
}

// ---------- reference model ----------

type refTask struct {
	id  string
	ser int
}

type c05op struct {
	kind   string // AddFirst AddLast AddAfter AddBefore Remove RemoveFirst RemoveLast Filter
	id     string // id of the new task (Add*) or the id to remove
	anchor string
	pred   string
}

func (o c05op) String() string {
	switch o.kind {
	case "AddFirst", "AddLast":
		return o.kind + "(" + o.id + ")"
	case "AddAfter", "AddBefore":
		return o.kind + "(" + o.anchor + "," + o.id + ")"
	case "Remove":
		return "Remove(" + o.id + ")"
	case "Filter":
		return "Filter(" + o.pred + ")"
	case "Iterate":
		return "Iterate"
	}
	return o.kind
}

func c05alphabet() []c05op {
	var ops []c05op
	ids := []string{"a", "b"}
	anchors := []string{"a", "b", "z"}
	for _, id := range ids {
		ops = append(ops, c05op{kind: "AddLast", id: id})
	}
	for _, id := range ids {
		ops = append(ops, c05op{kind: "AddFirst", id: id})
	}
	ops = append(ops, c05op{kind: "RemoveFirst"}, c05op{kind: "RemoveLast"})
	for _, id := range anchors {
		ops = append(ops, c05op{kind: "Remove", id: id})
	}
	for _, a := range anchors {
		for _, id := range ids {
			ops = append(ops, c05op{kind: "AddAfter", anchor: a, id: id})
		}
	}
	for _, a := range anchors {
		for _, id := range ids {
			ops = append(ops, c05op{kind: "AddBefore", anchor: a, id: id})
		}
	}
	// "not-first" and "until-b" carry state from one element to the next (drop the first element
	// only; keep elements until the first b): a filter looks at every element once, in order
	for _, p := range []string{"id=a", "none", "all", "odd", "not-first", "until-b"} {
		ops = append(ops, c05op{kind: "Filter", pred: p})
	}
	return ops
}

func predFn(p string) func(id string, ser int) bool {
	switch p {
	case "id=a":
		return func(id string, _ int) bool { return id == "a" }
	case "none":
		return func(string, int) bool { return false }
	case "all":
		return func(string, int) bool { return true }
	case "not-first":
		n := 0
		return func(string, int) bool { n++; return n != 1 }
	case "until-b":
		stop := false
		return func(id string, _ int) bool {
			if id == "b" {
				stop = true
			}
			return !stop
		}
	default:
		return func(_ string, ser int) bool { return ser%2 == 1 }
	}
}

// refApply returns the set of acceptable successor lists (more than one only for an
// anchor id that is not in the list: "unchanged" or "new task at the tail").
func refApply(l []refTask, o c05op, ser int) [][]refTask {
	cp := func(x []refTask) []refTask { return append([]refTask{}, x...) }
	nt := refTask{o.id, ser}
	idx := func(id string) int {
		for i, t := range l {
			if t.id == id {
				return i
			}
		}
		return -1
	}
	switch o.kind {
	case "AddFirst":
		return [][]refTask{append([]refTask{nt}, l...)}
	case "AddLast":
		return [][]refTask{append(cp(l), nt)}
	case "AddAfter", "AddBefore":
		i := idx(o.anchor)
		if i < 0 {
			return [][]refTask{cp(l), append(cp(l), nt)}
		}
		if o.kind == "AddAfter" {
			i++
		}
		r := append(cp(l[:i]), nt)
		return [][]refTask{append(r, l[i:]...)}
	case "Remove":
		i := idx(o.id)
		if i < 0 {
			return [][]refTask{cp(l)}
		}
		return [][]refTask{append(cp(l[:i]), l[i+1:]...)}
	case "RemoveFirst":
		if len(l) == 0 {
			return [][]refTask{nil}
		}
		return [][]refTask{cp(l[1:])}
	case "RemoveLast":
		if len(l) == 0 {
			return [][]refTask{nil}
		}
		return [][]refTask{cp(l[:len(l)-1])}
	case "Iterate":
		return [][]refTask{cp(l)}
	case "Filter":
		var r []refTask
		f := predFn(o.pred)
		for _, t := range l {
			if f(t.id, t.ser) {
				r = append(r, t)
			}
		}
		return [][]refTask{r}
	}
	panic("unknown op")
}

func refStr(l []refTask) string {
	s := make([]string, len(l))
	for i, t := range l {
		s[i] = fmt.Sprintf("%s#%d", t.id, t.ser)
	}
	return "[" + strings.Join(s, " ") + "]"
}

// ---------- real queue access ----------

func c05task(id string, ser int) task.Task {
	t := &task.BaseTask{Id: id, Props: map[string]interface{}{"ser": ser}}
	return t
}

func serOf(t task.Task) int { return t.GetProp("ser").(int) }

// realContent reads the queue through its public API only (Iterate); a nil element is
// reported as "<nil>".
func realContent(q *TaskQueue) (s string, hasNil bool, n int) {
	var parts []string
	// Iterate hands nil elements to the callback as they are.
	q.Iterate(func(t task.Task) {
		n++
		if t == nil {
			hasNil = true
			parts = append(parts, "<nil>")
			return
		}
		parts = append(parts, fmt.Sprintf("%s#%d", t.GetId(), serOf(t)))
	})
	return "[" + strings.Join(parts, " ") + "]", hasNil, n
}

func realApply(q *TaskQueue, o c05op, ser int) (removed string) {
	switch o.kind {
	case "AddFirst":
		q.AddFirst(c05task(o.id, ser))
	case "AddLast":
		q.AddLast(c05task(o.id, ser))
	case "AddAfter":
		q.AddAfter(o.anchor, c05task(o.id, ser))
	case "AddBefore":
		q.AddBefore(o.anchor, c05task(o.id, ser))
	case "Remove":
		if t := q.Remove(o.id); t != nil {
			removed = fmt.Sprintf("%s#%d", t.GetId(), serOf(t))
		}
	case "RemoveFirst":
		if t := q.RemoveFirst(); t != nil {
			removed = fmt.Sprintf("%s#%d", t.GetId(), serOf(t))
		}
	case "RemoveLast":
		if t := q.RemoveLast(); t != nil {
			removed = fmt.Sprintf("%s#%d", t.GetId(), serOf(t))
		}
	case "Filter":
		f := predFn(o.pred)
		q.Filter(func(t task.Task) bool { return f(t.GetId(), serOf(t)) })
	case "Iterate":
		// an observer: what one walk over the queue shows (reported like a removal's return value)
		var parts []string
		q.Iterate(func(t task.Task) {
			if c05IterateYield != nil {
				c05IterateYield()
			}
			if t == nil {
				parts = append(parts, "<nil>")
				return
			}
			parts = append(parts, fmt.Sprintf("%s#%d", t.GetId(), serOf(t)))
		})
		removed = "[" + strings.Join(parts, " ") + "]"
	}
	return
}

// c05IterateYield, when set, is called for every element of a walk (part c makes it a scheduling
// point so that another thread's operation can fall between two elements).
var c05IterateYield func()

// checkObservers compares every read-only operation with the reference list.
func checkObservers(q *TaskQueue, l []refTask) string {
	if q.Length() != len(l) {
		return fmt.Sprintf("Length()=%d, list has %d", q.Length(), len(l))
	}
	if q.IsEmpty() != (len(l) == 0) {
		return fmt.Sprintf("IsEmpty()=%v, list has %d", q.IsEmpty(), len(l))
	}
	name := func(t task.Task) string {
		if t == nil {
			return "nil"
		}
		return fmt.Sprintf("%s#%d", t.GetId(), serOf(t))
	}
	wantFirst, wantLast := "nil", "nil"
	if len(l) > 0 {
		wantFirst = fmt.Sprintf("%s#%d", l[0].id, l[0].ser)
		wantLast = fmt.Sprintf("%s#%d", l[len(l)-1].id, l[len(l)-1].ser)
	}
	if g := name(q.GetFirst()); g != wantFirst {
		return "GetFirst()=" + g + " want " + wantFirst
	}
	if g := name(q.GetLast()); g != wantLast {
		return "GetLast()=" + g + " want " + wantLast
	}
	for _, id := range []string{"a", "b", "z"} {
		want := "nil"
		for _, t := range l {
			if t.id == id {
				want = fmt.Sprintf("%s#%d", t.id, t.ser)
				break
			}
		}
		if g := name(q.Get(id)); g != want {
			return "Get(" + id + ")=" + g + " want " + want
		}
	}
	return ""
}

// runSeq executes ops on a fresh real queue and compares with the reference after every
// step. Returns the final canonical state, or a violation.
func runSeq(ops []c05op) (final []refTask, sig, what string) {
	q := NewTasksQueue()
	var l []refTask
	defer func() {
		if r := recover(); r != nil {
			sig, what = "C05a panic", fmt.Sprintf("panic %v", r)
		}
	}()
	for i, o := range ops {
		ser := i + 1
		var wantRemoved string
		switch o.kind {
		case "Remove":
			for _, t := range l {
				if t.id == o.id {
					wantRemoved = fmt.Sprintf("%s#%d", t.id, t.ser)
					break
				}
			}
		case "RemoveFirst":
			if len(l) > 0 {
				wantRemoved = fmt.Sprintf("%s#%d", l[0].id, l[0].ser)
			}
		case "RemoveLast":
			if len(l) > 0 {
				wantRemoved = fmt.Sprintf("%s#%d", l[len(l)-1].id, l[len(l)-1].ser)
			}
		}
		removed := realApply(q, o, ser)
		got, hasNil, _ := realContent(q)
		if hasNil {
			return nil, "C05a empty-slot op=" + o.kind + anchorClass(l, o), fmt.Sprintf("after %s the queue holds an empty slot: %s", o, got)
		}
		if removed != wantRemoved {
			return nil, "C05a wrong-removed op=" + o.kind, fmt.Sprintf("%s returned %q, list would return %q", o, removed, wantRemoved)
		}
		nexts := refApply(l, o, ser)
		ok := false
		for _, n := range nexts {
			if refStr(n) == got {
				l, ok = n, true
				break
			}
		}
		if !ok {
			var w []string
			for _, n := range nexts {
				w = append(w, refStr(n))
			}
			return nil, "C05a content op=" + o.kind + anchorClass(l, o), fmt.Sprintf("after %s queue=%s, list=%s", o, got, strings.Join(w, " or "))
		}
		if m := checkObservers(q, l); m != "" {
			return nil, "C05a observer op=" + o.kind, fmt.Sprintf("after %s: %s", o, m)
		}
	}
	return l, "", ""
}

func anchorClass(l []refTask, o c05op) string {
	if o.kind != "AddAfter" && o.kind != "AddBefore" {
		return ""
	}
	for _, t := range l {
		if t.id == o.anchor {
			return " anchor=present"
		}
	}
	return " anchor=absent"
}

func opsKey(ops []c05op) string {
	s := make([]string, len(ops))
	for i, o := range ops {
		s[i] = o.String()
	}
	return strings.Join(s, ";")
}

func TestVerifC05a(t *testing.T) {
	r := vres.New("c05a")
	defer r.Finish()
	alpha := c05alphabet()
	depthFull := vres.Pick(4, 5)
	depthBFS := vres.Pick(7, 10)
	r.Bound("alphabet_ops", len(alpha))
	r.Bound("full_enumeration_depth", depthFull)
	r.Bound("bfs_depth", depthBFS)

	// (1) full enumeration of all sequences of length 1..depthFull (sharded by ordinal).
	var ord int64
	var rec func(prefix []c05op)
	rec = func(prefix []c05op) {
		if len(prefix) > 0 {
			ord++
			if vres.Mine(ord) || r.Replaying() {
				key := "seq:" + opsKey(prefix)
				if r.Want(key) {
					fin, sig, what := runSeq(prefix)
					r.Eval(1)
					r.Transition(int64(len(prefix)))
					if sig != "" {
						r.Violation(sig, key, what, nil)
						r.Outcome("V:"+sig, true)
					} else {
						r.State(refStr(fin))
						nontriv := false
						for _, o := range prefix {
							if o.kind != "AddLast" {
								nontriv = true
							}
						}
						r.Outcome(canonIds(fin), nontriv)
						r.Sample(map[string]any{"ops": opsKey(prefix), "final": refStr(fin)})
					}
				}
			}
		}
		if len(prefix) == depthFull || r.Expired() {
			return
		}
		for _, o := range alpha {
			rec(append(prefix, o))
		}
	}
	rec(nil)

	// (2) BFS over canonical states (ids sequence); successor = replay of the shortest
	// history on a fresh queue + one operation.
	if s, _ := vres.Shard(); s == 0 && !r.Replaying() {
		type node struct{ hist []c05op }
		seen := map[string]bool{"": true}
		frontier := []node{{}}
		for d := 0; d < depthBFS && len(frontier) > 0; d++ {
			var next []node
			for _, nd := range frontier {
				for _, o := range alpha {
					h := append(append([]c05op{}, nd.hist...), o)
					fin, sig, what := runSeq(h)
					r.Eval(1)
					r.Transition(1)
					if sig != "" {
						r.Violation(sig, "seq:"+opsKey(h), what, nil)
						continue
					}
					k := canonIds(fin)
					if len(fin) > 5 {
						continue // list length bound of the BFS
					}
					if !seen[k] {
						seen[k] = true
						next = append(next, node{h})
					}
				}
			}
			frontier = next
		}
		r.AddStates(int64(len(seen)))
		r.Bound("bfs_list_len", 5)
		r.Bound("bfs_states", len(seen))
	}
}

func canonIds(l []refTask) string {
	s := make([]string, len(l))
	for i, t := range l {
		s[i] = t.id
	}
	return strings.Join(s, ",")
}

// ---------- part b: handler results through the real worker loop ----------

type c05step struct {
	status TaskStatus
	nHead  int
	nAfter int
	nTail  int
	delay  bool
	inop   string // "", "rmself", "addfirst", "addlast", "rmother"
}

func (s c05step) String() string {
	return fmt.Sprintf("%s/h%d/a%d/t%d/d%v/%s", s.status, s.nHead, s.nAfter, s.nTail, s.delay, s.inop)
}

func c05steps(full bool) []c05step {
	var out []c05step
	inops := []string{"", "rmself", "addfirst"}
	counts := []int{0, 1}
	delays := []bool{false}
	if full {
		inops = []string{"", "rmself", "addfirst", "addlast", "rmother"}
		counts = []int{0, 1, 2}
		delays = []bool{false, true}
	}
	for _, st := range []TaskStatus{Success, Keep, Fail, Repeat} {
		for _, io := range inops {
			for _, d := range delays {
				if st == Fail || st == Repeat {
					out = append(out, c05step{status: st, delay: d, inop: io})
					continue
				}
				for _, h := range counts {
					for _, a := range counts {
						for _, tl := range counts {
							out = append(out, c05step{st, h, a, tl, d, io})
						}
					}
				}
			}
		}
	}
	return out
}

type c05bResult struct {
	sig, what string
	trace     []string
}

// runHandlerSeq runs the real worker on a queue pre-filled with n0 tasks and scripts the
// handler with steps. Oracle inside handler entry (which task is handed over) and in
// AfterHandle (queue content after the result was applied).
func runHandlerSeq(n0 int, steps []c05step) (res c05bResult) {
	q := NewTasksQueue()
	q.WaitLoopCheckInterval = 20 * time.Microsecond
	q.DelayOnQueueIsEmpty = 20 * time.Microsecond
	q.DelayOnRepeat = 20 * time.Microsecond
	q.ExponentialBackoffFn = func(int) time.Duration { return 20 * time.Microsecond }
	ctx, cancel := context.WithCancel(context.Background())
	defer cancel()
	q.WithContext(ctx)

	ser := 0
	newTask := func() (task.Task, refTask) {
		ser++
		id := fmt.Sprintf("t%d", ser)
		return c05task(id, ser), refTask{id, ser}
	}
	var ref []refTask
	for i := 0; i < n0; i++ {
		t, rt := newTask()
		q.AddLast(t)
		ref = append(ref, rt)
	}
	done := make(chan struct{})
	var finished bool
	finish := func(sig, what string) {
		if finished {
			return
		}
		finished = true
		res.sig, res.what = sig, what
		cancel()
		close(done)
	}
	stepIdx := 0
	q.WithHandler(func(t task.Task) (tr TaskResult) {
		defer func() {
			if r := recover(); r != nil {
				finish("C05b panic-in-handler", fmt.Sprint(r))
				tr = TaskResult{Status: Success}
			}
		}()
		if finished {
			return TaskResult{Status: Keep}
		}
		if t == nil {
			finish("C05b nil-task-to-handler", fmt.Sprintf("handler got a nil task at step %d; ref=%s", stepIdx, refStr(ref)))
			return TaskResult{Status: Success}
		}
		got := fmt.Sprintf("%s#%d", t.GetId(), serOf(t))
		if len(ref) == 0 {
			finish("C05b handler-on-empty", "handler called with "+got+" but the list is empty")
			return TaskResult{Status: Keep}
		}
		want := fmt.Sprintf("%s#%d", ref[0].id, ref[0].ser)
		if got != want {
			finish("C05b not-head", fmt.Sprintf("step %d: handler got %s, head of list is %s (list %s)", stepIdx, got, want, refStr(ref)))
			return TaskResult{Status: Keep}
		}
		st := steps[stepIdx]
		stepIdx++
		cur := ref[0]
		// operation issued from inside the handler
		switch st.inop {
		case "rmself":
			q.Remove(cur.id)
			ref = ref[1:]
		case "addfirst":
			nt, rt := newTask()
			q.AddFirst(nt)
			ref = append([]refTask{rt}, ref...)
		case "addlast":
			nt, rt := newTask()
			q.AddLast(nt)
			ref = append(append([]refTask{}, ref...), rt)
		case "rmother":
			if len(ref) > 1 {
				q.Remove(ref[len(ref)-1].id)
				ref = append([]refTask{}, ref[:len(ref)-1]...)
			}
		}
		tr.Status = st.status
		var heads, afters, tails []refTask
		// The three lists a handler returns are sub-slices of ONE backing array with spare
		// capacity (a handler that builds all its tasks in one slice and hands out parts of it):
		// the queue must copy what it is given, not adopt or append to the handler's memory.
		all := make([]task.Task, 0, st.nHead+st.nAfter+st.nTail+8)
		for i := 0; i < st.nHead; i++ {
			nt, rt := newTask()
			all = append(all, nt)
			heads = append(heads, rt)
		}
		for i := 0; i < st.nAfter; i++ {
			nt, rt := newTask()
			all = append(all, nt)
			afters = append(afters, rt)
		}
		for i := 0; i < st.nTail; i++ {
			nt, rt := newTask()
			all = append(all, nt)
			tails = append(tails, rt)
		}
		if st.nHead > 0 {
			tr.HeadTasks = all[:st.nHead]
		}
		if st.nAfter > 0 {
			tr.AfterTasks = all[st.nHead : st.nHead+st.nAfter]
		}
		if st.nTail > 0 {
			tr.TailTasks = all[st.nHead+st.nAfter:]
		}
		if st.delay {
			tr.DelayBeforeNextTask = 30 * time.Microsecond
		}
		// reference: predicted list(s) after the result is applied
		pos := -1
		for i, x := range ref {
			if x == cur {
				pos = i
			}
		}
		var wants [][]refTask
		if st.status == Success || st.status == Keep {
			wrap := func(mid []refTask) []refTask {
				l := append(append([]refTask{}, heads...), mid...)
				return append(l, tails...)
			}
			if pos >= 0 {
				mid := append([]refTask{}, ref[:pos+1]...)
				if st.status == Success {
					mid = mid[:pos]
				}
				mid = append(mid, afters...)
				mid = append(mid, ref[pos+1:]...)
				wants = append(wants, wrap(mid))
			} else if len(afters) == 0 {
				wants = append(wants, wrap(ref))
			} else {
				// The running task left the queue while it was handled: its after-tasks
				// must not be lost. Where an ordinary list would put them is not defined,
				// so the place where the task was (front) and the tail are both accepted,
				// in either order.
				rev := make([]refTask, len(afters))
				for i, x := range afters {
					rev[len(afters)-1-i] = x
				}
				for _, af := range [][]refTask{afters, rev} {
					wants = append(wants, wrap(append(append([]refTask{}, ref...), af...)))
					wants = append(wants, wrap(append(append([]refTask{}, af...), ref...)))
				}
			}
		} else {
			wants = append(wants, append([]refTask{}, ref...))
		}
		last := stepIdx == len(steps)
		tr.AfterHandle = func() {
			got, hasNil, n := realContent(q)
			res.trace = append(res.trace, st.String()+" -> "+got)
			if hasNil {
				finish("C05b empty-slot status="+string(st.status)+" inop="+st.inop, fmt.Sprintf("step %s left an empty slot: %s", st, got))
				return
			}
			if q.Length() != n {
				finish("C05b length", fmt.Sprintf("Length()=%d but %d tasks", q.Length(), n))
				return
			}
			ok := false
			var ws []string
			for _, w := range wants {
				ws = append(ws, refStr(w))
				if refStr(w) == got {
					ref, ok = w, true
					break
				}
			}
			if !ok {
				finish("C05b content status="+string(st.status)+" inop="+st.inop, fmt.Sprintf("after step %s queue=%s, list=%s", st, got, strings.Join(ws, " or ")))
				return
			}
			if last || len(ref) == 0 {
				finish("", "")
			}
		}
		return tr
	})
	q.Start()
	select {
	case <-done:
	case <-time.After(120 * time.Second):
		// liveness guard only; never an oracle on a healthy tree
		return c05bResult{sig: "C05b stuck", what: fmt.Sprintf("worker made no progress for 120s at step %d; trace %v", stepIdx, res.trace), trace: res.trace}
	}
	return res
}

func stepsKey(n0 int, steps []c05step) string {
	s := make([]string, len(steps))
	for i, x := range steps {
		s[i] = x.String()
	}
	return fmt.Sprintf("n0=%d:%s", n0, strings.Join(s, ";"))
}

func TestVerifC05b(t *testing.T) {
	r := vres.New("c05b")
	defer r.Finish()
	full := c05steps(true)
	small := c05steps(false)
	depth := vres.Pick(2, 3)
	r.Bound("handler_steps_depth", depth)
	r.Bound("last_step_alphabet", len(full))
	r.Bound("earlier_step_alphabet", len(small))
	r.Bound("initial_queue_lengths", []int{1, 2, 3})
	var ord int64
	for d := 1; d <= depth; d++ {
		idx := make([]int, d)
		for {
			steps := make([]c05step, d)
			for i := 0; i < d-1; i++ {
				steps[i] = small[idx[i]]
			}
			steps[d-1] = full[idx[d-1]]
			for n0 := 1; n0 <= 3; n0++ {
				ord++
				if !(vres.Mine(ord) || r.Replaying()) {
					continue
				}
				key := stepsKey(n0, steps)
				if !r.Want(key) {
					continue
				}
				out := runHandlerSeq(n0, steps)
				r.Eval(1)
				r.Transition(int64(len(out.trace)))
				if out.sig != "" {
					r.Violation(out.sig, key, out.what, out.trace)
					r.Outcome("V:"+out.sig, true)
				} else {
					fin := ""
					if len(out.trace) > 0 {
						fin = out.trace[len(out.trace)-1]
					}
					r.State(fin)
					r.Outcome(fin, steps[d-1].inop != "" || steps[d-1].status != Success)
					r.Sample(map[string]any{"case": key, "trace": out.trace})
				}
			}
			// next index vector
			i := d - 1
			for i >= 0 {
				lim := len(small)
				if i == d-1 {
					lim = len(full)
				}
				idx[i]++
				if idx[i] < lim {
					break
				}
				idx[i] = 0
				i--
			}
			if i < 0 || r.Expired() {
				break
			}
		}
	}
}
