package queue

// C05 part c — the queue stays a faithful list when its operations are issued from several
// goroutines (the operator does: event goroutines add, the worker removes and inserts, combine
// filters). task_queue.go is compiled with its lock operations as scheduling points and run
// under the controlled scheduler.
//  (1) every pair (thorough: and a spread of triples) of public operations from two / three
//      threads on every small initial layout, ALL interleavings within the pre-emption bound:
//      the final content must be what an ordinary list holds after the operations in SOME
//      order (linearizability of the final state; return values of the removals included),
//      without an empty slot and with the right reported length;
//  (2) the real Start() worker handling the head with a scripted result (Success / Keep with
//      head / after / tail tasks, Fail) while another thread issues one operation: nothing is
//      lost, duplicated or invented (multiset of tasks), the tasks that were in the queue keep
//      their relative order, no empty slot, right length.

import (
	"context"
	"fmt"
	"sort"
	"strings"
	"testing"
	"time"

	"github.com/flant/shell-operator/pkg/task"
	"github.com/flant/shell-operator/pkg/zzverif/vres"
	"github.com/flant/shell-operator/pkg/zzverif/vrt"
)

func c05cAlphabet(full bool) []c05op {
	ops := []c05op{
		{kind: "AddLast", id: "n"}, {kind: "AddFirst", id: "n"},
		{kind: "RemoveFirst"}, {kind: "RemoveLast"},
		{kind: "Remove", id: "a"}, {kind: "Remove", id: "b"},
		{kind: "AddAfter", anchor: "a", id: "n"}, {kind: "AddBefore", anchor: "a", id: "n"},
		{kind: "AddAfter", anchor: "b", id: "n"},
		{kind: "Filter", pred: "id=a"}, {kind: "Filter", pred: "none"}, {kind: "Filter", pred: "all"},
		{kind: "Iterate"}, // an observer: one walk shows the list as it was at some instant
	}
	if full {
		ops = append(ops, c05op{kind: "AddBefore", anchor: "b", id: "n"}, c05op{kind: "AddAfter", anchor: "z", id: "n"},
			c05op{kind: "Remove", id: "z"}, c05op{kind: "Filter", pred: "odd"})
	}
	return ops
}

var c05cLayouts = [][]string{{}, {"a"}, {"a", "b"}, {"b", "a", "b"}}

// permutations of 0..n-1
func c05perms(n int) [][]int {
	if n == 1 {
		return [][]int{{0}}
	}
	var out [][]int
	for _, p := range c05perms(n - 1) {
		for i := 0; i <= len(p); i++ {
			q := append(append(append([]int{}, p[:i]...), n-1), p[i:]...)
			out = append(out, q)
		}
	}
	return out
}

// refRemoved is what a removal returns on the reference list.
func refRemoved(l []refTask, o c05op) string {
	f := func(t refTask) string { return fmt.Sprintf("%s#%d", t.id, t.ser) }
	switch o.kind {
	case "Remove":
		for _, t := range l {
			if t.id == o.id {
				return f(t)
			}
		}
	case "RemoveFirst":
		if len(l) > 0 {
			return f(l[0])
		}
	case "RemoveLast":
		if len(l) > 0 {
			return f(l[len(l)-1])
		}
	case "Iterate":
		return refStr(l)
	}
	return ""
}

// c05cAccept: every (final list, returned values) reachable by running ops in some order.
func c05cAccept(initial []refTask, ops []c05op) map[string]bool {
	acc := map[string]bool{}
	for _, perm := range c05perms(len(ops)) {
		type st struct {
			l   []refTask
			ret []string
		}
		cur := []st{{initial, make([]string, len(ops))}}
		for _, oi := range perm {
			var next []st
			for _, s := range cur {
				rm := refRemoved(s.l, ops[oi])
				for _, nl := range refApply(s.l, ops[oi], 100+oi) {
					ret := append([]string{}, s.ret...)
					ret[oi] = rm
					next = append(next, st{nl, ret})
				}
			}
			cur = next
		}
		for _, s := range cur {
			acc[refStr(s.l)+" ret="+strings.Join(s.ret, ",")] = true
		}
	}
	return acc
}

func TestVerifC05c(t *testing.T) {
	r := vres.New("c05c")
	defer r.Finish()
	bound := vres.Pick(2, 3)
	r.Bound("deviation_bound", bound)
	alpha := c05cAlphabet(vres.Thorough())
	r.Bound("concurrent_op_alphabet", len(alpha))
	r.Bound("threads", vres.Pick(2, 3))
	c05IterateYield = func() { vrt.Yield("iterate-element") }
	defer func() { c05IterateYield = nil }()
	var ord int64
	explore := func(name string, body func(x *vrt.Exec), check func(x *vrt.Exec) (string, string, string)) {
		ex := &vrt.Explorer{Opts: vrt.Options{Bound: bound, MaxSteps: 20000}, Deadline: r.Deadline()}
		ex.Check = func(x *vrt.Exec) {
			key := fmt.Sprintf("%s|%v", name, x.Choices)
			r.Eval(1)
			r.Transition(int64(x.Steps))
			if len(x.Panics) > 0 {
				r.Violation("C05c panic", key, strings.Join(x.Panics, "\n"), nil)
				return
			}
			if x.End == "deadlock" {
				r.Violation("C05c deadlock", key, strings.Join(x.Blocked, "; "), nil)
				return
			}
			if x.End != "done" {
				r.Violation("C05c no-progress", key, "execution ended with "+x.End+" before the scenario finished", nil)
				return
			}
			sig, what, outcome := check(x)
			if sig != "" {
				r.Violation(sig, key, what, nil)
				r.Outcome("V:"+sig, true)
				return
			}
			r.State(name + "|" + outcome)
			r.Outcome(name+"|"+outcome, x.Devs() > 0)
			if x.Devs() > 0 {
				r.Sample(map[string]any{"scenario": name, "choices": fmt.Sprint(x.Choices), "outcome": outcome})
			}
		}
		if r.Replaying() {
			parts := strings.SplitN(r.OnlyCase(), "|", 2)
			if len(parts) != 2 || parts[0] != name {
				return
			}
			var choices []int
			for _, f := range strings.Fields(strings.Trim(parts[1], "[]")) {
				var v int
				fmt.Sscan(f, &v)
				choices = append(choices, v)
			}
			opts := ex.Opts
			opts.RecordTrace = true
			x := vrt.Run(&opts, choices, nil, body)
			ex.Check(x)
			for _, tr := range x.Trace {
				r.Note("trace: %v", tr)
			}
			return
		}
		ex.Explore(body)
		if ex.Stats.Capped != "" {
			r.Cap(name + ":" + ex.Stats.Capped)
		}
	}

	// ---- (1) operations against operations ----
	runOps := func(layout []string, ops []c05op) {
		ord++
		if !(vres.Mine(ord) || r.Replaying()) || r.Expired() {
			return
		}
		var names []string
		for _, o := range ops {
			names = append(names, o.String())
		}
		name := fmt.Sprintf("ops [%s] %s", strings.Join(layout, " "), strings.Join(names, " <> "))
		var initial []refTask
		for i, id := range layout {
			initial = append(initial, refTask{id, i + 1})
		}
		accept := c05cAccept(initial, ops)
		var got string
		var hasNil bool
		var n, length int
		rets := make([]string, len(ops))
		body := func(x *vrt.Exec) {
			got, hasNil, n, length = "", false, 0, 0
			q := NewTasksQueue()
			q.WithContext(context.Background())
			vrt.Atomic(func() {
				for _, t := range initial {
					q.AddLast(c05task(t.id, t.ser))
				}
			})
			done := 0
			for i := range ops {
				i := i
				rets[i] = ""
				vrt.GoNamed(fmt.Sprintf("op%d", i), func() {
					rets[i] = realApply(q, ops[i], 100+i)
					done++
				})
			}
			vrt.WaitFor("ops", time.Hour, func() bool { return done == len(ops) })
			got, hasNil, n = realContent(q)
			length = q.Length()
		}
		explore(name, body, func(x *vrt.Exec) (string, string, string) {
			if hasNil {
				return "C05c empty-slot", fmt.Sprintf("%s left an empty slot: %s", name, got), ""
			}
			if length != n {
				return "C05c length", fmt.Sprintf("%s: Length()=%d but %d tasks", name, length, n), ""
			}
			oc := got + " ret=" + strings.Join(rets, ",")
			if !accept[oc] {
				var ws []string
				for k := range accept {
					ws = append(ws, k)
				}
				sort.Strings(ws)
				return "C05c not-linearizable " + ops[0].kind + "<>" + ops[len(ops)-1].kind, fmt.Sprintf("%s: queue ended as %s; an ordinary list ends as one of: %s", name, oc, strings.Join(ws, " | ")), ""
			}
			return "", "", oc
		})
	}
	for _, layout := range c05cLayouts {
		for _, a := range alpha {
			for _, b := range alpha {
				runOps(layout, []c05op{a, b})
			}
		}
	}
	if vres.Thorough() {
		small := c05cAlphabet(false)
		for _, layout := range c05cLayouts[1:] {
			for _, a := range small {
				for _, b := range small {
					for _, c := range small {
						runOps(layout, []c05op{a, b, c})
					}
				}
			}
		}
	}

	// ---- (2) the worker against one operation ----
	type wres struct {
		status             TaskStatus
		nHead, nAfter, nTail int
	}
	results := []wres{{Success, 0, 0, 0}, {Success, 1, 1, 1}, {Success, 0, 2, 0}, {Keep, 1, 0, 1}, {Keep, 0, 1, 0}, {Fail, 0, 0, 0}}
	wops := []c05op{
		{kind: "AddLast", id: "n"}, {kind: "AddFirst", id: "n"},
		{kind: "AddAfter", anchor: "a", id: "n"}, {kind: "AddBefore", anchor: "a", id: "n"},
		{kind: "AddAfter", anchor: "b", id: "n"}, {kind: "AddBefore", anchor: "b", id: "n"},
		{kind: "Remove", id: "b"}, {kind: "RemoveLast"}, {kind: "Filter", pred: "none"},
	}
	for _, layout := range [][]string{{"a"}, {"a", "b"}, {"a", "b", "c"}} {
		for _, wr := range results {
			for _, op := range wops {
				ord++
				if !(vres.Mine(ord) || r.Replaying()) || r.Expired() {
					continue
				}
				layout, wr, op := layout, wr, op
				name := fmt.Sprintf("worker [%s] %s/h%d/a%d/t%d <> %s", strings.Join(layout, " "), wr.status, wr.nHead, wr.nAfter, wr.nTail, op.String())
				var got string
				var hasNil bool
				var n, length int
				var handled []string
				var created []string
				body := func(x *vrt.Exec) {
					handled, created = nil, nil
					got, hasNil, n, length = "", false, 0, 0
					q := NewTasksQueue()
					ctx, cancel := context.WithCancel(context.Background())
					defer cancel()
					q.WithContext(ctx)
					vrt.Atomic(func() {
						for i, id := range layout {
							q.AddLast(c05task(id, i+1))
						}
					})
					ser := 10
					mk := func() task.Task {
						ser++
						id := fmt.Sprintf("r%d", ser)
						created = append(created, fmt.Sprintf("%s#%d", id, ser))
						return c05task(id, ser)
					}
					calls := 0
					applied := false
					q.WithHandler(func(t task.Task) TaskResult {
						calls++
						if calls > 1 || t == nil {
							// only the first handling is scripted; afterwards the queue is parked
							return TaskResult{Status: Keep, DelayBeforeNextTask: time.Hour}
						}
						handled = append(handled, fmt.Sprintf("%s#%d", t.GetId(), serOf(t)))
						tr := TaskResult{Status: wr.status}
						for i := 0; i < wr.nHead; i++ {
							tr.HeadTasks = append(tr.HeadTasks, mk())
						}
						for i := 0; i < wr.nAfter; i++ {
							tr.AfterTasks = append(tr.AfterTasks, mk())
						}
						for i := 0; i < wr.nTail; i++ {
							tr.TailTasks = append(tr.TailTasks, mk())
						}
						tr.DelayBeforeNextTask = time.Hour // park the worker after the first result
						tr.AfterHandle = func() { applied = true }
						return tr
					})
					opDone := false
					vrt.GoNamed("op", func() {
						realApply(q, op, 100)
						opDone = true
					})
					q.Start()
					vrt.WaitFor("first-result", 5*time.Second, func() bool { return applied && opDone })
					got, hasNil, n = realContent(q)
					length = q.Length()
				}
				explore(name, body, func(x *vrt.Exec) (string, string, string) {
					if hasNil {
						return "C05c empty-slot", fmt.Sprintf("%s left an empty slot: %s", name, got), ""
					}
					if length != n {
						return "C05c length", fmt.Sprintf("%s: Length()=%d but %d tasks", name, length, n), ""
					}
					if len(handled) == 0 {
						// the operation emptied the queue before the worker picked anything
						if (op.kind == "RemoveLast" || op.kind == "Filter" || op.kind == "Remove") && n == 0 {
							return "", "", "emptied-before-pick"
						}
						return "C05c worker-did-not-handle", fmt.Sprintf("%s: nothing was handled, queue %s", name, got), ""
					}
					// acceptable multisets: the operation lands before the pick, during the handler, or
					// after the result is applied; removals / filters may or may not meet the handled
					// task and the result tasks
					want := map[string]int{}
					for i, id := range layout {
						want[fmt.Sprintf("%s#%d", id, i+1)]++
					}
					for _, c := range created {
						want[c]++
					}
					if wr.status == Success && len(handled) > 0 {
						want[handled[0]]--
					}
					gotSet := map[string]int{}
					for _, f := range strings.Fields(strings.Trim(got, "[]")) {
						gotSet[f]++
					}
					switch op.kind {
					case "AddLast", "AddFirst", "AddAfter", "AddBefore":
						want["n#100"]++
					}
					var missing, extra []string
					for k, v := range want {
						if v > 0 && gotSet[k] < v {
							missing = append(missing, k)
						}
					}
					for k, v := range gotSet {
						if v > want[k] {
							extra = append(extra, k)
						}
					}
					sort.Strings(missing)
					sort.Strings(extra)
					removable := func(k string) bool {
						switch op.kind {
						case "Remove":
							return strings.HasPrefix(k, op.id+"#")
						case "RemoveLast", "Filter":
							return true
						}
						return false
					}
					var lost []string
					for _, k := range missing {
						if !removable(k) {
							lost = append(lost, k)
						}
					}
					maxRemoved := 1
					if op.kind == "Filter" {
						maxRemoved = 1 << 30
					}
					if len(lost) > 0 || len(missing) > maxRemoved {
						return "C05c task-lost " + string(wr.status) + "<>" + op.kind, fmt.Sprintf("%s: queue ended as %s, missing %v", name, got, missing), ""
					}
					if len(extra) > 0 {
						return "C05c task-duplicated-or-invented " + string(wr.status) + "<>" + op.kind, fmt.Sprintf("%s: queue ended as %s, not expected: %v", name, got, extra), ""
					}
					// relative order of the tasks that were in the queue from the start
					last := 0
					for _, f := range strings.Fields(strings.Trim(got, "[]")) {
						var id string
						var s int
						if i := strings.IndexByte(f, '#'); i > 0 {
							id = f[:i]
							fmt.Sscan(f[i+1:], &s)
						}
						_ = id
						if s >= 1 && s <= len(layout) {
							if s < last {
								return "C05c order " + string(wr.status) + "<>" + op.kind, fmt.Sprintf("%s: queue ended as %s: initial tasks changed their relative order", name, got), ""
							}
							last = s
						}
					}
					return "", "", got
				})
			}
		}
	}
}
