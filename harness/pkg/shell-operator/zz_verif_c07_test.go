package shell_operator

// C07 part a — combining adjacent tasks keeps every binding context, in order.
// Every queue layout up to a length over a task alphabet (2 hooks x task types x context
// group shapes x monitor ids x no-metadata) is put into a real TaskQueue; the real combine
// functions (private and exported twin) are called for the head task and compared with a
// reference written from the property statement: full context sequences, monitor ids and
// the remaining queue content.

import (
	"context"
	"fmt"
	"os"
	"strings"
	"testing"

	"github.com/deckhouse/deckhouse/pkg/log"

	bindingcontext "github.com/flant/shell-operator/pkg/hook/binding_context"
	"github.com/flant/shell-operator/pkg/hook/task_metadata"
	"github.com/flant/shell-operator/pkg/task"
	"github.com/flant/shell-operator/pkg/task/queue"
	"github.com/flant/shell-operator/pkg/zzverif/vres"
)

func init() {
	os.Setenv("QUEUE_ACTIONS_METRICS", "no")
}

type c07kind struct {
	hook   string
	typ    task.TaskType
	nometa bool
	groups []string
	mon    []string
}

func (k c07kind) String() string {
	if k.nometa {
		return "nometa"
	}
	s := k.hook + ":" + string(k.typ)[:4] + ":[" + strings.Join(k.groups, ",") + "]"
	if len(k.mon) > 0 {
		s += ":m=" + strings.Join(k.mon, "+")
	}
	return s
}

func c07alphabet() []c07kind {
	var out []c07kind
	shapes := [][]string{{""}, {"g"}, {"h"}, {"g", "g"}, {"g", "h"}, {"", "g"}}
	for _, h := range []string{"A", "B"} {
		for _, sh := range shapes {
			out = append(out, c07kind{hook: h, typ: task_metadata.HookRun, groups: sh})
		}
	}
	out = append(out,
		c07kind{hook: "A", typ: task_metadata.HookRun, groups: []string{"g"}, mon: []string{"m1"}},
		c07kind{hook: "A", typ: task_metadata.HookRun, groups: []string{""}, mon: []string{"m2"}},
		c07kind{hook: "A", typ: task_metadata.EnableKubernetesBindings, groups: []string{""}},
		c07kind{hook: "B", typ: task_metadata.EnableKubernetesBindings, groups: []string{"g"}},
		c07kind{nometa: true},
	)
	return out
}

type c07task struct {
	kind c07kind
	id   string
	ctxs []string // context labels
}

type c07ref struct {
	isNil  bool
	ctxs   []string
	mons   []string
	remain []string // task ids left in queue
}

func c07reference(layout []c07task) c07ref {
	ids := func(ts []c07task) []string {
		var r []string
		for _, t := range ts {
			r = append(r, t.id)
		}
		return r
	}
	head := layout[0]
	if head.kind.nometa {
		return c07ref{isNil: true, remain: ids(layout)}
	}
	end := 1
	for end < len(layout) {
		k := layout[end].kind
		if k.nometa || k.hook != head.kind.hook || k.typ != head.kind.typ {
			break
		}
		end++
	}
	if end == 1 {
		return c07ref{isNil: true, remain: ids(layout)}
	}
	var all []string
	var groups []string
	var mons []string
	for _, t := range layout[:end] {
		all = append(all, t.ctxs...)
		groups = append(groups, t.kind.groups...)
		mons = append(mons, t.kind.mon...)
	}
	var kept []string
	for i := range all {
		if groups[i] != "" && i+1 < len(all) && groups[i+1] == groups[i] {
			continue
		}
		kept = append(kept, all[i])
	}
	remain := append([]string{head.id}, ids(layout[end:])...)
	return c07ref{ctxs: kept, mons: mons, remain: remain}
}

func c07run(layout []c07kind, exported bool) (sig, what string, outcome string) {
	tqs := queue.NewTaskQueueSet()
	tqs.WithContext(context.Background())
	tqs.NewNamedQueue("q", func(task.Task) queue.TaskResult { return queue.TaskResult{Status: "Success"} })
	q := tqs.GetByName("q")
	op := &ShellOperator{logger: log.NewNop(), TaskQueues: tqs}

	var lay []c07task
	var real []task.Task
	n := 0
	for i, k := range layout {
		ct := c07task{kind: k, id: fmt.Sprintf("t%d", i)}
		bt := &task.BaseTask{Id: ct.id, Type: k.typ, QueueName: "q", Props: map[string]interface{}{}}
		if k.nometa {
			bt.Type = task_metadata.HookRun
		} else {
			var bcs []bindingcontext.BindingContext
			for _, g := range k.groups {
				n++
				lbl := fmt.Sprintf("c%d", n)
				bc := bindingcontext.BindingContext{Binding: lbl}
				bc.Metadata.Group = g
				bcs = append(bcs, bc)
				ct.ctxs = append(ct.ctxs, lbl)
			}
			bt.WithMetadata(task_metadata.HookMetadata{HookName: k.hook, BindingContext: bcs, MonitorIDs: append([]string{}, k.mon...)})
		}
		lay = append(lay, ct)
		real = append(real, bt)
		q.AddLast(bt)
	}
	want := c07reference(lay)

	var res *CombineResult
	func() {
		defer func() {
			if r := recover(); r != nil {
				sig, what = "C07a panic", fmt.Sprint(r)
			}
		}()
		if exported {
			res = op.CombineBindingContextForHook(q, real[0], nil)
		} else {
			res = op.combineBindingContextForHook(tqs, q, real[0], nil)
		}
	}()
	if sig != "" {
		return
	}
	var remain []string
	q.Iterate(func(t task.Task) {
		if t == nil {
			remain = append(remain, "<nil>")
		} else {
			remain = append(remain, t.GetId())
		}
	})
	fn := "private"
	if exported {
		fn = "exported"
	}
	if strings.Join(remain, ",") != strings.Join(want.remain, ",") {
		return "C07a queue-content fn=" + fn, fmt.Sprintf("queue after combine %v, want %v", remain, want.remain), ""
	}
	if q.Length() != len(want.remain) {
		return "C07a queue-length fn=" + fn, fmt.Sprintf("Length()=%d want %d", q.Length(), len(want.remain)), ""
	}
	if want.isNil {
		if res != nil {
			return "C07a combined-nothing-expected fn=" + fn, fmt.Sprintf("result %+v where nothing can be merged", res), ""
		}
		return "", "", "nil|" + strings.Join(remain, ",")
	}
	if res == nil {
		return "C07a not-combined fn=" + fn, fmt.Sprintf("nil result, want contexts %v", want.ctxs), ""
	}
	var got []string
	for _, bc := range res.BindingContexts {
		got = append(got, bc.Binding)
	}
	if strings.Join(got, ",") != strings.Join(want.ctxs, ",") {
		return "C07a contexts fn=" + fn, fmt.Sprintf("contexts %v, want %v", got, want.ctxs), ""
	}
	if strings.Join(res.MonitorIDs, ",") != strings.Join(want.mons, ",") {
		return "C07a monitor-ids fn=" + fn, fmt.Sprintf("monitor ids %v, want %v", res.MonitorIDs, want.mons), ""
	}
	return "", "", strings.Join(got, ",") + "|" + strings.Join(res.MonitorIDs, ",") + "|" + strings.Join(remain, ",")
}

func TestVerifC07a(t *testing.T) {
	r := vres.New("c07a")
	defer r.Finish()
	alpha := c07alphabet()
	maxLen := vres.Pick(4, 5)
	r.Bound("task_alphabet", len(alpha))
	r.Bound("max_queue_length", maxLen)
	var ord int64
	for n := 1; n <= maxLen; n++ {
		idx := make([]int, n)
		for {
			ord++
			if vres.Mine(ord) || r.Replaying() {
				layout := make([]c07kind, n)
				names := make([]string, n)
				for i := range idx {
					layout[i] = alpha[idx[i]]
					names[i] = layout[i].String()
				}
				for _, exported := range []bool{false, true} {
					key := fmt.Sprintf("exp=%v;%s", exported, strings.Join(names, " "))
					if !r.Want(key) {
						continue
					}
					sig, what, outcome := c07run(layout, exported)
					r.Eval(1)
					r.Transition(1)
					if sig != "" {
						r.Violation(sig, key, what, nil)
						r.Outcome("V:"+sig, true)
						continue
					}
					r.State(outcome)
					r.Outcome(outcome, !strings.HasPrefix(outcome, "nil|"))
					r.Sample(map[string]any{"layout": names, "exported_twin": exported, "contexts|monitors|queue": outcome})
				}
			}
			i := n - 1
			for i >= 0 {
				idx[i]++
				if idx[i] < len(alpha) {
					break
				}
				idx[i] = 0
				i--
			}
			if i < 0 || r.Expired() {
				break
			}
		}
	}
}
