package shell_operator

// C07 part a — combining adjacent tasks keeps every binding context, in order.
// Every queue layout up to a length over a task alphabet (2 hooks x task types x context
// group shapes x monitor ids x no-metadata) is put into a real TaskQueue; the real combine
// functions (private and exported twin) are called for the head task and compared with a
// reference written from the property statement: full context sequences, monitor ids and
// the remaining queue content.

import (
	"context"
	"fmt"
	"os"
	"strings"
	"testing"
	"time"

	"github.com/deckhouse/deckhouse/pkg/log"

	bindingcontext "github.com/flant/shell-operator/pkg/hook/binding_context"
	"github.com/flant/shell-operator/pkg/hook/task_metadata"
	"github.com/flant/shell-operator/pkg/task"
	"github.com/flant/shell-operator/pkg/task/queue"
	"github.com/flant/shell-operator/pkg/zzverif/vres"
	"github.com/flant/shell-operator/pkg/zzverif/vrt"
)

func init() {
	os.Setenv("QUEUE_ACTIONS_METRICS", "no")
}

type c07kind struct {
	hook   string
	typ    task.TaskType
	nometa bool
	groups []string
	mon    []string
}

func (k c07kind) String() string {
	if k.nometa {
		return "nometa"
	}
	s := k.hook + ":" + string(k.typ)[:4] + ":[" + strings.Join(k.groups, ",") + "]"
	if len(k.mon) > 0 {
		s += ":m=" + strings.Join(k.mon, "+")
	}
	return s
}

func c07alphabet() []c07kind {
	var out []c07kind
	// the last shape: a task of group g that took an ungrouped context in during an earlier,
	// failed execution (the task keeps the group it was created with)
	shapes := [][]string{{""}, {"g"}, {"h"}, {"g", "g"}, {"g", "h"}, {"", "g"}, {"g", ""}}
	for _, h := range []string{"A", "B"} {
		for _, sh := range shapes {
			out = append(out, c07kind{hook: h, typ: task_metadata.HookRun, groups: sh})
		}
	}
	out = append(out,
		c07kind{hook: "A", typ: task_metadata.HookRun, groups: []string{"g"}, mon: []string{"m1"}},
		c07kind{hook: "A", typ: task_metadata.HookRun, groups: []string{""}, mon: []string{"m2"}},
		c07kind{hook: "A", typ: task_metadata.EnableKubernetesBindings, groups: []string{""}},
		c07kind{hook: "B", typ: task_metadata.EnableKubernetesBindings, groups: []string{"g"}},
		c07kind{nometa: true},
	)
	return out
}

type c07task struct {
	kind c07kind
	id   string
	ctxs []string // context labels
}

type c07ref struct {
	isNil  bool
	ctxs   []string
	mons   []string
	remain []string // task ids left in queue
}

func c07reference(layout []c07task) c07ref {
	ids := func(ts []c07task) []string {
		var r []string
		for _, t := range ts {
			r = append(r, t.id)
		}
		return r
	}
	head := layout[0]
	if head.kind.nometa {
		return c07ref{isNil: true, remain: ids(layout)}
	}
	end := 1
	for end < len(layout) {
		k := layout[end].kind
		if k.nometa || k.hook != head.kind.hook || k.typ != head.kind.typ {
			break
		}
		end++
	}
	if end == 1 {
		return c07ref{isNil: true, remain: ids(layout)}
	}
	var all []string
	var groups []string
	var mons []string
	for _, t := range layout[:end] {
		all = append(all, t.ctxs...)
		groups = append(groups, t.kind.groups...)
		mons = append(mons, t.kind.mon...)
	}
	var kept []string
	for i := range all {
		if groups[i] != "" && i+1 < len(all) && groups[i+1] == groups[i] {
			continue
		}
		kept = append(kept, all[i])
	}
	remain := append([]string{head.id}, ids(layout[end:])...)
	return c07ref{ctxs: kept, mons: mons, remain: remain}
}

func c07run(layout []c07kind, exported bool) (sig, what string, outcome string) {
	tqs := queue.NewTaskQueueSet()
	tqs.WithContext(context.Background())
	tqs.NewNamedQueue("q", func(task.Task) queue.TaskResult { return queue.TaskResult{Status: "Success"} })
	q := tqs.GetByName("q")
	op := &ShellOperator{logger: log.NewNop(), TaskQueues: tqs}

	var lay []c07task
	var real []task.Task
	n := 0
	for i, k := range layout {
		ct := c07task{kind: k, id: fmt.Sprintf("t%d", i)}
		bt := &task.BaseTask{Id: ct.id, Type: k.typ, QueueName: "q", Props: map[string]interface{}{}}
		if k.nometa {
			bt.Type = task_metadata.HookRun
		} else {
			var bcs []bindingcontext.BindingContext
			for _, g := range k.groups {
				n++
				lbl := fmt.Sprintf("c%d", n)
				bc := bindingcontext.BindingContext{Binding: lbl}
				bc.Metadata.Group = g
				bcs = append(bcs, bc)
				ct.ctxs = append(ct.ctxs, lbl)
			}
			bt.WithMetadata(task_metadata.HookMetadata{HookName: k.hook, Group: k.groups[0], BindingContext: bcs, MonitorIDs: append([]string{}, k.mon...)})
		}
		lay = append(lay, ct)
		real = append(real, bt)
		q.AddLast(bt)
	}
	want := c07reference(lay)

	var res *CombineResult
	func() {
		defer func() {
			if r := recover(); r != nil {
				sig, what = "C07a panic", fmt.Sprint(r)
			}
		}()
		if exported {
			res = op.CombineBindingContextForHook(q, real[0], nil)
		} else {
			res = op.combineBindingContextForHook(tqs, q, real[0], nil)
		}
	}()
	if sig != "" {
		return
	}
	var remain []string
	q.Iterate(func(t task.Task) {
		if t == nil {
			remain = append(remain, "<nil>")
		} else {
			remain = append(remain, t.GetId())
		}
	})
	fn := "private"
	if exported {
		fn = "exported"
	}
	if strings.Join(remain, ",") != strings.Join(want.remain, ",") {
		return "C07a queue-content fn=" + fn, fmt.Sprintf("queue after combine %v, want %v", remain, want.remain), ""
	}
	if q.Length() != len(want.remain) {
		return "C07a queue-length fn=" + fn, fmt.Sprintf("Length()=%d want %d", q.Length(), len(want.remain)), ""
	}
	if want.isNil {
		if res != nil {
			return "C07a combined-nothing-expected fn=" + fn, fmt.Sprintf("result %+v where nothing can be merged", res), ""
		}
		return "", "", "nil|" + strings.Join(remain, ",")
	}
	if res == nil {
		return "C07a not-combined fn=" + fn, fmt.Sprintf("nil result, want contexts %v", want.ctxs), ""
	}
	var got []string
	for _, bc := range res.BindingContexts {
		got = append(got, bc.Binding)
	}
	if strings.Join(got, ",") != strings.Join(want.ctxs, ",") {
		return "C07a contexts fn=" + fn, fmt.Sprintf("contexts %v, want %v", got, want.ctxs), ""
	}
	if strings.Join(res.MonitorIDs, ",") != strings.Join(want.mons, ",") {
		return "C07a monitor-ids fn=" + fn, fmt.Sprintf("monitor ids %v, want %v", res.MonitorIDs, want.mons), ""
	}
	return "", "", strings.Join(got, ",") + "|" + strings.Join(res.MonitorIDs, ",") + "|" + strings.Join(remain, ",")
}

func TestVerifC07a(t *testing.T) {
	r := vres.New("c07a")
	defer r.Finish()
	alpha := c07alphabet()
	maxLen := vres.Pick(4, 5)
	r.Bound("task_alphabet", len(alpha))
	r.Bound("max_queue_length", maxLen)
	var ord int64
	for n := 1; n <= maxLen; n++ {
		idx := make([]int, n)
		for {
			ord++
			if vres.Mine(ord) || r.Replaying() {
				layout := make([]c07kind, n)
				names := make([]string, n)
				for i := range idx {
					layout[i] = alpha[idx[i]]
					names[i] = layout[i].String()
				}
				for _, exported := range []bool{false, true} {
					key := fmt.Sprintf("exp=%v;%s", exported, strings.Join(names, " "))
					if !r.Want(key) {
						continue
					}
					sig, what, outcome := c07run(layout, exported)
					r.Eval(1)
					r.Transition(1)
					if sig != "" {
						r.Violation(sig, key, what, nil)
						r.Outcome("V:"+sig, true)
						continue
					}
					r.State(outcome)
					r.Outcome(outcome, !strings.HasPrefix(outcome, "nil|"))
					r.Sample(map[string]any{"layout": names, "exported_twin": exported, "contexts|monitors|queue": outcome})
				}
			}
			i := n - 1
			for i >= 0 {
				idx[i]++
				if idx[i] < len(alpha) {
					break
				}
				idx[i] = 0
				i--
			}
			if i < 0 || r.Expired() {
				break
			}
		}
	}
}

// ---- part b: tasks appended while the combination is in progress (scheduler) ----

type c07bScenario struct {
	Name    string
	Initial []string // hook of each initial task (head first)
	Append  []string // hooks of the tasks the appender adds
}

func TestVerifC07b(t *testing.T) {
	r := vres.New("c07b")
	defer r.Finish()
	bound := vres.Pick(2, 3)
	r.Bound("deviation_bound", bound)
	scs := []c07bScenario{
		{"AA+A", []string{"A", "A"}, []string{"A"}},
		{"A+A", []string{"A"}, []string{"A"}},
		{"AA+AA", []string{"A", "A"}, []string{"A", "A"}},
		{"AAB+A", []string{"A", "A", "B"}, []string{"A"}},
		{"AA+BA", []string{"A", "A"}, []string{"B", "A"}},
		{"AB+A", []string{"A", "B"}, []string{"A"}},
	}
	shard, shards := vres.Shard()
	for _, exported := range []bool{false, true} {
		for _, sc := range scs {
			sc, exported := sc, exported
			type obsT struct {
				got     []string
				nilRes  bool
				remain  [][]string // contexts of tasks left in the queue, in order
				all     []string
				headCtx []string
				panics  string
			}
			var obs *obsT
			body := func(x *vrt.Exec) {
				obs = &obsT{}
				tqs := queue.NewTaskQueueSet()
				tqs.WithContext(context.Background())
				tqs.NewNamedQueue("q", func(task.Task) queue.TaskResult { return queue.TaskResult{Status: "Success"} })
				q := tqs.GetByName("q")
				op := &ShellOperator{logger: log.NewNop(), TaskQueues: tqs}
				n := 0
				mk := func(hook string) task.Task {
					n++
					lbl := fmt.Sprintf("c%d", n)
					bt := &task.BaseTask{Id: fmt.Sprintf("t%d", n), Type: task_metadata.HookRun, QueueName: "q", Props: map[string]interface{}{}}
					bt.WithMetadata(task_metadata.HookMetadata{HookName: hook, BindingContext: []bindingcontext.BindingContext{{Binding: lbl}}})
					obs.all = append(obs.all, lbl)
					return bt
				}
				var head task.Task
				vrt.Atomic(func() {
					for i, h := range sc.Initial {
						tk := mk(h)
						if i == 0 {
							head = tk
							obs.headCtx = []string{"c1"}
						}
						q.AddLast(tk)
					}
				})
				done := 0
				vrt.GoNamed("appender", func() {
					for _, h := range sc.Append {
						q.AddLast(mk(h))
					}
					done++
				})
				vrt.GoNamed("worker", func() {
					var res *CombineResult
					if exported {
						res = op.CombineBindingContextForHook(q, head, nil)
					} else {
						res = op.combineBindingContextForHook(tqs, q, head, nil)
					}
					if res == nil {
						obs.nilRes = true
					} else {
						for _, bc := range res.BindingContexts {
							obs.got = append(obs.got, bc.Binding)
						}
					}
					done++
				})
				vrt.WaitFor("both", time.Hour, func() bool { return done == 2 })
				q.Iterate(func(tk task.Task) {
					var cs []string
					if tk != nil {
						for _, bc := range task_metadata.HookMetadataAccessor(tk).BindingContext {
							cs = append(cs, bc.Binding)
						}
					}
					obs.remain = append(obs.remain, cs)
				})
			}
			name := fmt.Sprintf("%s/exported=%v", sc.Name, exported)
			ex := &vrt.Explorer{Opts: vrt.Options{Bound: bound, MaxSteps: 5000}, Shard: shard, Shards: shards, Deadline: r.Deadline()}
			ex.Check = func(x *vrt.Exec) {
				key := fmt.Sprintf("%s|%v", name, x.Choices)
				r.Eval(1)
				r.Transition(int64(x.Steps))
				if len(x.Panics) > 0 {
					r.Violation("C07b panic", key, strings.Join(x.Panics, "\n"), nil)
					return
				}
				if x.End == "deadlock" {
					r.Violation("C07b deadlock", key, strings.Join(x.Blocked, "; "), nil)
					return
				}
				// every context is either handed to the hook or still in the queue, exactly once
				count := map[string]int{}
				delivered := obs.got
				if obs.nilRes {
					delivered = obs.headCtx // nothing merged: the head keeps its own context
				}
				for _, c := range delivered {
					count[c]++
				}
				for i, cs := range obs.remain {
					if i == 0 {
						continue // the head task stays in the queue while it runs
					}
					for _, c := range cs {
						count[c]++
					}
				}
				for _, c := range obs.all {
					if count[c] == 0 {
						r.Violation("C07b context-lost", key, fmt.Sprintf("%s: context %s is neither in the combined result %v nor in the queue %v", name, c, delivered, obs.remain), nil)
						r.Outcome("V:lost", true)
						return
					}
					if count[c] > 1 {
						r.Violation("C07b context-duplicated", key, fmt.Sprintf("%s: context %s is both delivered and still queued: result %v queue %v", name, c, delivered, obs.remain), nil)
						r.Outcome("V:dup", true)
						return
					}
				}
				// delivered contexts keep queue (= creation) order
				last := 0
				for _, c := range delivered {
					var k int
					fmt.Sscanf(c, "c%d", &k)
					if k < last {
						r.Violation("C07b order", key, fmt.Sprintf("%s: combined contexts out of order: %v", name, delivered), nil)
						return
					}
					last = k
				}
				oc := fmt.Sprintf("%s|%v|%v", name, delivered, obs.remain)
				r.State(oc)
				r.Outcome(oc, x.Devs() > 0)
				if x.Devs() > 0 {
					r.Sample(map[string]any{"scenario": name, "choices": fmt.Sprint(x.Choices), "combined": delivered, "queue_after": obs.remain})
				}
			}
			if r.Replaying() {
				parts := strings.SplitN(r.OnlyCase(), "|", 2)
				if len(parts) != 2 || parts[0] != name {
					continue
				}
				var choices []int
				for _, f := range strings.Fields(strings.Trim(parts[1], "[]")) {
					var v int
					fmt.Sscan(f, &v)
					choices = append(choices, v)
				}
				opts := ex.Opts
				ex.Check(vrt.Run(&opts, choices, nil, body))
				continue
			}
			ex.Explore(body)
			r.Count("executions:"+name, ex.Stats.Executions)
			if ex.Stats.Capped != "" {
				r.Cap(name + ":" + ex.Stats.Capped)
			}
		}
	}
}
