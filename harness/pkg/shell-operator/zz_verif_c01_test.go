package shell_operator

// C01 level 2 — no cluster change is lost between Synchronization and later Events, observed
// at the hook: what the hook process is given (the real binding-context files), through the
// real operator (queues, events handler, bindings controllers, unlock after a successful
// Synchronization, kube events manager), with the Synchronization run failing k times.
// Configurations: one plain binding; two bindings of one group in two namespaces. Changes
// arrive while the Synchronization is still failing and afterwards. Delay-bounded exploration.

import (
	"context"
	"fmt"
	"strings"
	"testing"
	"time"

	metav1 "k8s.io/apimachinery/pkg/apis/meta/v1"

	kubeeventsmanager "github.com/flant/shell-operator/pkg/kube_events_manager"
	"github.com/flant/shell-operator/pkg/zzverif/vres"
	"github.com/flant/shell-operator/pkg/zzverif/vrt"
)

var c01l2configs = map[string]string{
	"plain":       "configVersion: v1\nkubernetes:\n- name: k1\n  kind: ConfigMap\n  namespace: {nameSelector: {matchNames: [n1]}}\n",
	"plain-queue": "configVersion: v1\nkubernetes:\n- name: k1\n  kind: ConfigMap\n  queue: q2\n  namespace: {nameSelector: {matchNames: [n1]}}\n",
	// two bindings without a name (both are called "kubernetes"): each has a monitor of its own
	"unnamed-pair": "configVersion: v1\nkubernetes:\n- kind: ConfigMap\n  namespace: {nameSelector: {matchNames: [n1]}}\n- kind: ConfigMap\n  namespace: {nameSelector: {matchNames: [n2]}}\n",
	"group":       "configVersion: v1\nkubernetes:\n- name: k1\n  kind: ConfigMap\n  group: g\n  namespace: {nameSelector: {matchNames: [n1]}}\n- name: k2\n  kind: ConfigMap\n  group: g\n  namespace: {nameSelector: {matchNames: [n2]}}\n",
}

type c01l2obs struct {
	fx      *fixture
	Settled bool
	End     string
	Panics  []string
	Blocked []string
	Final   map[string]int // namespace -> final version of object o
}

func c01l2body(cfgName string, fails int, hold bool, obs *c01l2obs) func(x *vrt.Exec) {
	return func(x *vrt.Exec) {
		fx := newFixture([]fxHook{{Name: "h.sh", Config: c01l2configs[cfgName]}})
		obs.fx = fx
		obs.Final = map[string]int{}
		defer fx.close()
		hub := &kubeeventsmanager.ZZHub{}
		kubeeventsmanager.ZZInstallHub(hub)
		defer kubeeventsmanager.ZZInstallHub(nil)
		fx.withCluster()
		ctx := context.Background()
		dyn := fx.op.KubeClient.Dynamic()
		for _, ns := range []string{"n1", "n2"} {
			if _, err := dyn.Resource(cmGVR).Namespace(ns).Create(ctx, cmObj(ns, "o", 0), metav1.CreateOptions{}); err != nil {
				panic(err)
			}
		}
		failed := 0
		isSyncRun := func(run *fxRun) bool {
			for _, c := range run.Contexts {
				if c["type"] == "Synchronization" {
					return true
				}
			}
			// the first execution of a grouped hook is its Synchronization
			return cfgName == "group" && run.Seq == failed
		}
		// hold variant: the next execution after holdNext is set stays "running" until released
		holdNext, held, released := false, 0, false
		fx.Script = func(run *fxRun) fxOutcome {
			if isSyncRun(run) && failed < fails {
				failed++
				run.Failed = true
				return fxOutcome{Exit: 1}
			}
			if holdNext {
				holdNext = false
				held++
				return fxOutcome{Block: func() bool { return released }}
			}
			return fxOutcome{}
		}
		var err error
		vrt.Atomic(func() { err = fx.assemble() })
		if err != nil {
			panic(err)
		}
		mutate := func(ns string, ver int) {
			old, _ := dyn.Resource(cmGVR).Namespace(ns).Get(ctx, "o", metav1.GetOptions{})
			o := cmObj(ns, "o", ver)
			if _, err := dyn.Resource(cmGVR).Namespace(ns).Update(ctx, o, metav1.UpdateOptions{}); err != nil {
				panic(err)
			}
			obs.Final[ns] = ver
			hub.Notify(cmGVR, "update", old, o)
		}
		finishedRuns := func() int {
			n := 0
			for _, r := range fx.Runs {
				if r.EndSeq > 0 {
					n++
				}
			}
			return n
		}
		envDone := false
		vrt.GoNamed("env", func() {
			// first changes: as soon as the first Synchronization attempt is over (failed or not)
			vrt.Wait("env-first", func() bool { return finishedRuns() >= 1 })
			mutate("n1", 1)
			mutate("n2", 1)
			// later changes: after every Synchronization has succeeded
			vrt.Wait("env-second", func() bool { return finishedRuns() >= fails+1 })
			// each later change arrives either at once or only after the operator has gone quiet
			// (enumerated, cost 0): a change that arrives "late" must trigger an execution of its own
			quietNow := func() bool {
				if hub.Pending() || hub.Busy != 0 || len(fx.op.KubeEventsManager.Ch()) != 0 {
					return false
				}
				for _, q := range []string{"main", "q2"} {
					if tq := fx.op.TaskQueues.GetByName(q); tq != nil && (!tq.IsEmpty() || !idle(fx, q)) {
						return false
					}
				}
				return true
			}
			if hold {
				// a change that arrives while the hook is executing for an earlier change: the
				// execution in progress took its view before it, so another execution must follow
				vrt.WaitFor("operator-quiet", 10*time.Minute, quietNow)
				holdNext = true
				mutate("n1", 2)
				if vrt.WaitFor("execution-in-progress", 10*time.Minute, func() bool { return held > 0 }) {
					mutate("n1", 3)
					mutate("n2", 2)
					if vrt.Choose(2, "release-after-delivery") == 1 {
						// the informers deliver while the hook is still running
						vrt.WaitFor("delivered", 10*time.Minute, func() bool {
							return !hub.Pending() && hub.Busy == 0 && len(fx.op.KubeEventsManager.Ch()) == 0
						})
					}
				}
				released = true
				envDone = true
				return
			}
			for _, ns := range []string{"n1", "n2"} { // the last change belongs to the second binding of the group
				if vrt.Choose(2, "change-arrives-late") == 1 {
					vrt.WaitFor("operator-quiet", 10*time.Minute, quietNow)
				} else {
					vrt.Yield("env")
				}
				mutate(ns, 2)
			}
			envDone = true
		})
		fx.start()
		obs.Settled = vrt.WaitFor("settled", 60*time.Minute, func() bool {
			if !envDone || hub.Pending() || hub.Busy != 0 || len(fx.op.KubeEventsManager.Ch()) != 0 {
				return false
			}
			for _, q := range []string{"main", "q2"} {
				if tq := fx.op.TaskQueues.GetByName(q); tq != nil && (!tq.IsEmpty() || !idle(fx, q)) {
					return false
				}
			}
			return true
		})
		// a grace period on the virtual clock: anything still on its way gets executed
		vrt.WaitFor("grace", 30*time.Second, func() bool { return false })
	}
}

func verOfObj(o any) int {
	m, _ := o.(map[string]any)
	if m == nil {
		return -1
	}
	if inner, ok := m["object"].(map[string]any); ok {
		m = inner
	}
	data, _ := m["data"].(map[string]any)
	v := -1
	fmt.Sscan(fmt.Sprint(data["v"]), &v)
	return v
}

func c01l2check(cfgName string, fails int, obs *c01l2obs) (string, string) {
	if len(obs.Panics) > 0 {
		return "C01-L2 panic", strings.Join(obs.Panics, "\n")
	}
	if obs.End == "deadlock" {
		return "C01-L2 deadlock", strings.Join(obs.Blocked, "; ")
	}
	fx := obs.fx
	if !obs.Settled {
		return "C01-L2 not-settled", fmt.Sprintf("end=%s runs=%s", obs.End, c03runs(fx))
	}
	if cfgName == "unnamed-pair" {
		// the two bindings share their name: tell them apart by the namespace of the object concerned
		nsOf := func(o any) string {
			m, _ := o.(map[string]any)
			if inner, ok := m["object"].(map[string]any); ok {
				m = inner
			}
			md, _ := m["metadata"].(map[string]any)
			ns, _ := md["namespace"].(string)
			return ns
		}
		// Two bindings under one name: which Synchronization context belongs to which of them is
		// not defined (contexts are told apart by the binding name), so only what does not depend
		// on that is checked: both bindings get a Synchronization, and every binding's changes
		// reach the hook as Events, in order, up to the cluster's final state.
		view := map[string]int{"n1": -1, "n2": -1}
		syncs := 0
		for _, r := range fx.Runs {
			for _, c := range r.Contexts {
				switch c["type"] {
				case "Synchronization":
					if !r.Failed {
						syncs++
					}
				case "Event":
					ns := nsOf(c["object"])
					v := verOfObj(c["object"])
					if v < view[ns] {
						return "C01-L2 event-order", fmt.Sprintf("Event for %s/o version %d after the hook had seen version %d", ns, v, view[ns])
					}
					view[ns] = v
				}
			}
		}
		if syncs != 2 {
			return "C01-L2 no-synchronization", fmt.Sprintf("%d successful Synchronization contexts for two bindings; runs: %s", syncs, c03runs(fx))
		}
		for _, ns := range []string{"n1", "n2"} {
			if view[ns] != obs.Final[ns] {
				return "C01-L2 lost-event binding=unnamed", fmt.Sprintf("the Events the hook got for %s/o end at version %d, the cluster has version %d; runs: %s", ns, view[ns], obs.Final[ns], c03runs(fx))
			}
		}
		return "", ""
	}
	if cfgName != "group" {
		// Synchronization view + Events, per object, in order
		view := -2
		syncOK := false
		for _, r := range fx.Runs {
			for _, c := range r.Contexts {
				if c["binding"] != "k1" {
					continue
				}
				switch c["type"] {
				case "Synchronization":
					if !r.Failed {
						syncOK = true
						view = -1
						if objs, ok := c["objects"].([]any); ok && len(objs) == 1 {
							view = verOfObj(objs[0])
						}
					}
				case "Event":
					if !syncOK {
						return "C01-L2 event-before-synchronization", fmt.Sprintf("an Event reached the hook before its Synchronization succeeded; runs: %s", c03runs(fx))
					}
					v := verOfObj(c["object"])
					if v < view {
						return "C01-L2 event-order", fmt.Sprintf("Event for version %d after the hook had seen version %d", v, view)
					}
					view = v
				}
			}
		}
		if !syncOK {
			return "C01-L2 no-synchronization", c03runs(fx)
		}
		if view != obs.Final["n1"] {
			return "C01-L2 lost-event", fmt.Sprintf("the hook's view of n1/o ends at version %d, the cluster has version %d; runs: %s", view, obs.Final["n1"], c03runs(fx))
		}
		return "", ""
	}
	// group: the last Group execution must show the final state of both bindings
	last := map[string]int{"k1": -2, "k2": -2}
	okRuns := 0
	for _, r := range fx.Runs {
		if r.Failed {
			continue
		}
		for _, c := range r.Contexts {
			if c["type"] != "Group" {
				continue
			}
			okRuns++
			sn, _ := c["snapshots"].(map[string]any)
			for _, b := range []string{"k1", "k2"} {
				l, _ := sn[b].([]any)
				if len(l) == 1 {
					last[b] = verOfObj(l[0])
				} else {
					last[b] = -1
				}
			}
		}
	}
	if okRuns == 0 {
		return "C01-L2 no-synchronization", c03runs(fx)
	}
	for b, ns := range map[string]string{"k1": "n1", "k2": "n2"} {
		if last[b] != obs.Final[ns] {
			return "C01-L2 group-change-not-followed-by-execution binding=" + b, fmt.Sprintf("the last Group execution showed %s at version %d, the cluster has version %d: a change after the Synchronization was not followed by a Group execution; runs: %s", b, last[b], obs.Final[ns], c03runs(fx))
		}
	}
	return "", ""
}

func TestVerifC01L2(t *testing.T) {
	r := vres.New("c01l2")
	defer r.Finish()
	bound := vres.Pick(1, 2)
	r.Bound("deviation_bound", bound)
	shard, shards := vres.Shard()
	type sc struct {
		cfg   string
		fails int
		hold  bool
	}
	var scs []sc
	for _, c := range []string{"plain", "plain-queue", "group"} {
		for f := 0; f <= vres.Pick(1, 2); f++ {
			scs = append(scs, sc{c, f, false})
		}
		scs = append(scs, sc{c, 0, true})
	}
	scs = append(scs, sc{"unnamed-pair", 0, false})
	for i, s := range scs {
		if !r.Replaying() && i%shards != shard {
			continue
		}
		s := s
		name := fmt.Sprintf("%s/sync-fails=%d", s.cfg, s.fails)
		if s.hold {
			name = s.cfg + "/change-during-execution"
		}
		var obs *c01l2obs
		body := func(x *vrt.Exec) {
			obs = &c01l2obs{}
			c01l2body(s.cfg, s.fails, s.hold, obs)(x)
		}
		ex := &vrt.Explorer{Opts: vrt.Options{Bound: bound, MaxSteps: 300000, DelayBound: true}, Deadline: r.Deadline()}
		ex.Check = func(x *vrt.Exec) {
			obs.End, obs.Panics, obs.Blocked = x.End, x.Panics, x.Blocked
			key := fmt.Sprintf("%s|%v", name, x.Choices)
			r.Eval(1)
			r.Transition(int64(x.Steps))
			sig, what := c01l2check(s.cfg, s.fails, obs)
			if sig != "" {
				r.Violation(sig, key, what, nil)
				r.Outcome("V:"+sig, true)
				return
			}
			oc := name + "|" + c03runs(obs.fx)
			r.State(oc)
			r.Outcome(oc, x.Devs() > 0 || s.fails > 0)
			if x.Devs() > 0 {
				r.Sample(map[string]any{"scenario": name, "choices": fmt.Sprint(x.Choices), "executions": c03runs(obs.fx)})
			}
		}
		if r.Replaying() {
			parts := strings.SplitN(r.OnlyCase(), "|", 2)
			if len(parts) != 2 || parts[0] != name {
				continue
			}
			var choices []int
			for _, f := range strings.Fields(strings.Trim(parts[1], "[]")) {
				var v int
				fmt.Sscan(f, &v)
				choices = append(choices, v)
			}
			opts := ex.Opts
			ex.Check(vrt.Run(&opts, choices, nil, body))
			r.Note("replayed %s: final=%v runs=%s", name, obs.Final, c03runs(obs.fx))
			continue
		}
		ex.Explore(body)
		r.Count("executions:"+name, ex.Stats.Executions)
		if ex.Stats.Capped != "" {
			r.Cap(name + ":" + ex.Stats.Capped)
		}
		if r.Expired() {
			return
		}
	}
}
