package shell_operator

// C14 — admission webhooks fail closed and relay the hook's verdict faithfully.
// The operator's own admission initialisation runs (server start behind a no-op seam);
// AdmissionReview requests are served through the real chi router / handler with httptest.
// Enumerated: binding sets over two hooks (validating and mutating, distinct and URL-colliding
// names) x request path (registered, unknown webhook, unknown configuration, malformed) x body
// (valid review, no request, garbage) x hook outcome (exit code x response file content).

import (
	"bytes"
	"encoding/base64"
	"encoding/json"
	"fmt"
	"net/http"
	"net/http/httptest"
	"strings"
	"testing"

	bindingcontext "github.com/flant/shell-operator/pkg/hook/binding_context"
	"github.com/flant/shell-operator/pkg/hook/task_metadata"
	htypes "github.com/flant/shell-operator/pkg/hook/types"
	"github.com/flant/shell-operator/pkg/task"
	"github.com/flant/shell-operator/pkg/utils/string_helper"
	"github.com/flant/shell-operator/pkg/zzverif/vres"
)

type c14binding struct {
	hook, name, kind string // kind: Validating | Mutating
}

type c14set struct {
	name     string
	bindings []c14binding
}

// c14rules: every hook watches a resource of its own, so that the rules the manager holds for a
// path tell whose webhook is registered there.
func c14rules(hook string) string {
	return "  rules:\n  - operations: [\"*\"]\n    apiGroups: [\"\"]\n    apiVersions: [\"v1\"]\n    resources: [\"" + c14resource(hook) + "\"]\n"
}

func c14resource(hook string) string {
	if hook == "b.sh" {
		return "secrets"
	}
	return "configmaps"
}

func c14config(bs []c14binding, hook string) string {
	s := "configVersion: v1\n"
	for _, kind := range []string{"Validating", "Mutating"} {
		first := true
		for _, b := range bs {
			if b.hook != hook || b.kind != kind {
				continue
			}
			if first {
				s += "kubernetes" + kind + ":\n"
				first = false
			}
			s += "- name: " + b.name + "\n" + c14rules(hook)
		}
	}
	if s == "configVersion: v1\n" {
		s += "onStartup: 1\n"
	}
	// every hook also has ordinary work: a schedule binding whose task may be waiting in `main`
	s += "schedule:\n- name: sb\n  crontab: \"* * * * *\"\n"
	return s
}

type c14outcome struct {
	id       string
	exit     int
	response string
	valid    bool // exit 0 and a well-formed response
	allowed  bool
	message  string
	warnings []string
	patch    string
	kpatch   string // what the hook writes to $KUBERNETES_PATCH_PATH
}

func c14outcomes() []c14outcome {
	patch := `[{"op":"add","path":"/metadata/labels/x","value":"y"}]`
	b64 := base64.StdEncoding.EncodeToString([]byte(patch))
	var out []c14outcome
	for _, exit := range []int{0, 1} {
		out = append(out,
			c14outcome{id: "empty", exit: exit},
			c14outcome{id: "garbage", exit: exit, response: `{"allowed": tru`},
			c14outcome{id: "wrong-type", exit: exit, response: `{"allowed": "yes"}`},
			c14outcome{id: "allow", exit: exit, response: `{"allowed": true}`, valid: exit == 0, allowed: true},
			c14outcome{id: "allow+warn", exit: exit, response: `{"allowed": true, "warnings": ["w1", "w2"]}`, valid: exit == 0, allowed: true, warnings: []string{"w1", "w2"}},
			c14outcome{id: "deny+msg", exit: exit, response: `{"allowed": false, "message": "not today"}`, valid: exit == 0, message: "not today"},
			c14outcome{id: "deny", exit: exit, response: `{"allowed": false}`, valid: exit == 0},
			c14outcome{id: "deny+msg+warn", exit: exit, response: `{"allowed": false, "message": "no", "warnings": ["w3"]}`, valid: exit == 0, message: "no", warnings: []string{"w3"}},
			// the hook says "allowed" but the rest of its run fails (object patch that cannot be parsed /
			// cannot be applied): a failed run is a denial
			c14outcome{id: "allow+bad-object-patch", exit: exit, response: `{"allowed": true}`, kpatch: `{"operation":"NoSuchOperation"}`},
			c14outcome{id: "allow+unappliable-object-patch", exit: exit, response: `{"allowed": true}`, kpatch: `{"operation":"MergePatch","kind":"ConfigMap","namespace":"default","name":"absent","mergePatch":{"data":{"a":"b"}}}`},
			c14outcome{id: "allow+patch+warn", exit: exit, response: `{"allowed": true, "warnings": ["w4"], "patch": "` + b64 + `"}`, valid: exit == 0, allowed: true, warnings: []string{"w4"}, patch: patch},
			c14outcome{id: "allow+patch", exit: exit, response: `{"allowed": true, "patch": "` + b64 + `"}`, valid: exit == 0, allowed: true, patch: patch},
		)
	}
	return out
}

func c14run(set c14set, path, bodyKind string, oc c14outcome) (sig, what, outcome string) {
	fx := newFixture([]fxHook{{Name: "a.sh", Config: c14config(set.bindings, "a.sh")}, {Name: "b.sh", Config: c14config(set.bindings, "b.sh")}})
	defer fx.close()
	defer func() {
		if r := recover(); r != nil {
			sig, what = "C14 panic", fmt.Sprint(r)
		}
	}()
	fx.Script = func(run *fxRun) fxOutcome {
		return fxOutcome{Exit: oc.exit, Admission: oc.response, Patch: oc.kpatch}
	}
	if err := fx.assemble(); err != nil {
		return "C14 config-rejected", err.Error(), ""
	}
	if err := fx.withWebhooks(); err != nil {
		return "C14 webhook-init", err.Error(), ""
	}
	// ordinary work waiting in `main` (not started here): one schedule task per hook. A webhook
	// request is served on its own and leaves the queues alone.
	fx.withCluster()
	fx.op.TaskQueues.WithMainName("main")
	fx.op.TaskQueues.NewNamedQueue("main", fx.op.taskHandler)
	mainQ := fx.op.TaskQueues.GetMain()
	var waiting []string
	for _, hn := range []string{"a.sh", "b.sh"} {
		bc := bindingcontext.BindingContext{Binding: "sb"}
		bc.Metadata.BindingType = htypes.Schedule
		tk := task.NewTask(task_metadata.HookRun).WithMetadata(task_metadata.HookMetadata{HookName: hn, Binding: "sb", BindingType: htypes.Schedule, BindingContext: []bindingcontext.BindingContext{bc}}).WithQueueName("main")
		mainQ.AddLast(tk)
		waiting = append(waiting, tk.GetId())
	}
	defer func() {
		if sig != "" {
			return
		}
		var left []string
		mainQ.Iterate(func(t task.Task) {
			if t != nil {
				left = append(left, t.GetId())
			}
		})
		if strings.Join(left, ",") != strings.Join(waiting, ",") {
			sig, what = "C14 queue-disturbed-by-request", fmt.Sprintf("tasks waiting in main before the request %v, after it %v", waiting, left)
		}
	}()
	var body string
	switch bodyKind {
	case "valid":
		body = `{"apiVersion":"admission.k8s.io/v1","kind":"AdmissionReview","request":{"uid":"uid-77","operation":"CREATE","object":{"apiVersion":"v1","kind":"ConfigMap","metadata":{"name":"x"}}}}`
	case "no-request":
		body = `{"apiVersion":"admission.k8s.io/v1","kind":"AdmissionReview"}`
	case "garbage":
		body = `{"apiVersion": `
	}
	req := httptest.NewRequest(http.MethodPost, path, bytes.NewBufferString(body))
	req.Header.Set("Content-Type", "application/json")
	rec := httptest.NewRecorder()
	fx.op.AdmissionWebhookManager.Handler.Router.ServeHTTP(rec, req)

	// who registered this path
	var registrants []c14binding
	for _, b := range set.bindings {
		if path == "/hooks/"+string_helper.SafeURLString(b.name) {
			registrants = append(registrants, b)
		}
	}
	ran := len(fx.Runs)
	if bodyKind != "valid" {
		if rec.Code == http.StatusOK {
			var rv map[string]any
			_ = json.Unmarshal(rec.Body.Bytes(), &rv)
			if resp, ok := rv["response"].(map[string]any); ok && resp["allowed"] == true {
				return "C14 allowed-on-bad-request", fmt.Sprintf("body %s answered allowed=true", bodyKind), ""
			}
		}
		if ran != 0 {
			return "C14 hook-ran-on-bad-request", fmt.Sprintf("body %s: %d hook runs", bodyKind, ran), ""
		}
		return "", "", fmt.Sprintf("http %d", rec.Code)
	}
	if rec.Code != http.StatusOK {
		return "C14 http-status", fmt.Sprintf("valid review answered with HTTP %d: %s", rec.Code, rec.Body.String()), ""
	}
	var review struct {
		Response *struct {
			UID       string   `json:"uid"`
			Allowed   bool     `json:"allowed"`
			Warnings  []string `json:"warnings"`
			Patch     string   `json:"patch"`
			PatchType *string  `json:"patchType"`
			Status    *struct {
				Message string `json:"message"`
				Code    int    `json:"code"`
			} `json:"status"`
		} `json:"response"`
	}
	if err := json.Unmarshal(rec.Body.Bytes(), &review); err != nil || review.Response == nil {
		return "C14 no-response", fmt.Sprintf("answer is not an AdmissionReview with a response: %s", rec.Body.String()), ""
	}
	resp := review.Response
	if resp.UID != "uid-77" {
		return "C14 uid-not-echoed", fmt.Sprintf("response uid %q, request uid uid-77 (allowed=%v)", resp.UID, resp.Allowed), ""
	}
	if len(registrants) == 0 {
		if resp.Allowed {
			return "C14 allowed-on-unknown-path", fmt.Sprintf("path %s is not registered by any binding, answered allowed=true", path), ""
		}
		if ran != 0 {
			return "C14 hook-ran-for-unknown-path", fmt.Sprintf("path %s: hook %s executed", path, fx.Runs[0].Hook), ""
		}
		return "", "", "denied (unknown path)"
	}
	if ran != 1 {
		return "C14 hook-runs", fmt.Sprintf("path %s: %d hook executions, want 1", path, ran), ""
	}
	run := fx.Runs[0]
	okReg := false
	for _, b := range registrants {
		if run.Hook == b.hook && len(run.Contexts) == 1 && run.Contexts[0]["binding"] == b.name && run.Contexts[0]["type"] == b.kind {
			okReg = true
		}
	}
	// when two bindings yield the same path, the cluster holds the rules of one of them (the
	// webhook configuration the manager would register): the request the API server sends for
	// those rules is served by that binding
	if okReg && len(registrants) > 1 {
		id := strings.TrimPrefix(path, "/hooks/")
		regName, regResource := "", ""
		for _, res := range fx.op.AdmissionWebhookManager.ValidatingResources {
			if c := res.Get(id); c != nil && c.ValidatingWebhook != nil {
				regName = c.ValidatingWebhook.Name
				if len(c.ValidatingWebhook.Rules) > 0 && len(c.ValidatingWebhook.Rules[0].Resources) > 0 {
					regResource = c.ValidatingWebhook.Rules[0].Resources[0]
				}
			}
		}
		for _, res := range fx.op.AdmissionWebhookManager.MutatingResources {
			if c := res.Get(id); c != nil && c.MutatingWebhook != nil && regName == "" {
				regName = c.MutatingWebhook.Name
				if len(c.MutatingWebhook.Rules) > 0 && len(c.MutatingWebhook.Rules[0].Resources) > 0 {
					regResource = c.MutatingWebhook.Rules[0].Resources[0]
				}
			}
		}
		if regName == "" {
			return "C14 scenario", fmt.Sprintf("path %s has %d registrants but no webhook with id %q is held by the manager (validating resources %d, mutating %d)", path, len(registrants), id, len(fx.op.AdmissionWebhookManager.ValidatingResources), len(fx.op.AdmissionWebhookManager.MutatingResources)), ""
		}
		if regName != "" && run.Contexts[0]["binding"] != regName {
			return "C14 served-by-another-binding-than-registered", fmt.Sprintf("path %s: the webhook configuration holds the rules of binding %q, the request was served by %v of %s", path, regName, run.Contexts[0]["binding"], run.Hook), ""
		}
		if regResource != "" && regResource != c14resource(run.Hook) {
			return "C14 served-by-another-hook-than-registered", fmt.Sprintf("path %s: the webhook configuration holds the rules of a hook watching %s (binding %q), the request was served by %s, which watches %s", path, regResource, regName, run.Hook, c14resource(run.Hook)), ""
		}
	}
	if !okReg {
		return "C14 wrong-hook-or-binding", fmt.Sprintf("path %s registered by %v was handed to %s with contexts %s", path, registrants, run.Hook, run.Raw), ""
	}
	wantAllowed := oc.valid && oc.allowed
	if resp.Allowed != wantAllowed {
		if resp.Allowed {
			return "C14 allowed-without-valid-allow", fmt.Sprintf("hook outcome exit=%d response=%q answered allowed=true", oc.exit, oc.response), ""
		}
		return "C14 denied-a-valid-allow", fmt.Sprintf("hook outcome exit=%d response=%q answered allowed=false (%+v)", oc.exit, oc.response, resp.Status), ""
	}
	if oc.valid {
		if strings.Join(resp.Warnings, "|") != strings.Join(oc.warnings, "|") {
			return "C14 warnings-not-relayed", fmt.Sprintf("warnings %v, hook wrote %v", resp.Warnings, oc.warnings), ""
		}
		if !oc.allowed && oc.message != "" && (resp.Status == nil || resp.Status.Message != oc.message) {
			return "C14 message-not-relayed", fmt.Sprintf("denial status %+v, hook message %q", resp.Status, oc.message), ""
		}
		gotPatch, _ := base64.StdEncoding.DecodeString(resp.Patch)
		if string(gotPatch) != oc.patch {
			return "C14 patch-not-relayed", fmt.Sprintf("patch %q, hook wrote %q", gotPatch, oc.patch), ""
		}
		if (oc.patch != "") != (resp.PatchType != nil && *resp.PatchType == "JSONPatch") {
			return "C14 patch-type", fmt.Sprintf("patch %q with patchType %v", oc.patch, resp.PatchType), ""
		}
	}
	return "", "", fmt.Sprintf("allowed=%v by %s/%v", resp.Allowed, run.Hook, run.Contexts[0]["binding"])
}

func TestVerifC14(t *testing.T) {
	r := vres.New("c14")
	defer r.Finish()
	sets := []c14set{
		{"one-validating", []c14binding{{"a.sh", "val-a.example.com", "Validating"}}},
		{"mixed", []c14binding{{"a.sh", "val-a.example.com", "Validating"}, {"a.sh", "val2.example.com", "Validating"}, {"a.sh", "mut-a.example.com", "Mutating"}, {"b.sh", "val-b.example.com", "Validating"}}},
		// one validating name in two hooks, the first of which has a mutating binding too (it is enabled twice)
		{"same-name+mutating", []c14binding{{"a.sh", "pol.example.com", "Validating"}, {"a.sh", "mut-a.example.com", "Mutating"}, {"b.sh", "pol.example.com", "Validating"}}},
		{"same-name", []c14binding{{"a.sh", "pol.example.com", "Validating"}, {"b.sh", "pol.example.com", "Validating"}, {"b.sh", "mut-b.example.com", "Mutating"}}},
		{"url-collision", []c14binding{{"a.sh", "val-a.example.com", "Validating"}, {"b.sh", "val.a.example.com", "Validating"}, {"b.sh", "mut-b.example.com", "Mutating"}}},
	}
	outcomes := c14outcomes()
	r.Bound("binding_sets", len(sets))
	r.Bound("hook_outcomes", len(outcomes))
	var ord int64
	for _, set := range sets {
		paths := []string{"/hooks/no-such-webhook", "/other/val-a-example-com", "/", "/hooks", "/hooks/val-a-example-com/extra"}
		seen := map[string]bool{}
		for _, b := range set.bindings {
			p := "/hooks/" + string_helper.SafeURLString(b.name)
			if !seen[p] {
				seen[p] = true
				paths = append(paths, p)
			}
		}
		for _, path := range paths {
			for _, body := range []string{"valid", "no-request", "garbage"} {
				for _, oc := range outcomes {
					if body != "valid" && oc.id != "allow" {
						continue
					}
					ord++
					if !(vres.Mine(ord) || r.Replaying()) {
						continue
					}
					key := fmt.Sprintf("%s|%s|%s|exit=%d,%s", set.name, path, body, oc.exit, oc.id)
					if !r.Want(key) {
						continue
					}
					sig, what, outcome := c14run(set, path, body, oc)
					r.Eval(1)
					r.Transition(1)
					if sig != "" {
						r.Violation(sig, key, what, nil)
						r.Outcome("V:"+sig, true)
						continue
					}
					r.State(key)
					r.Outcome(outcome, oc.exit != 0 || !oc.valid || body != "valid")
					r.Sample(map[string]any{"case": key, "answer": outcome})
				}
			}
		}
	}
}
