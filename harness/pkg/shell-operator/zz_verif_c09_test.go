package shell_operator

// C09 — binding context JSON follows the documented contract, incl. filterResult.
// For every option vector of a kubernetes binding (jqFilter x keepFullObjectsInMemory x
// includeSnapshotsFrom {none, itself, another binding} x group) a hook with that binding, a
// second kubernetes binding, a schedule, validating, mutating and conversion bindings (with and
// without includeSnapshotsFrom) and onStartup is loaded into the real operator; start-up,
// Added / Modified / Deleted changes, a tick, admission requests and a conversion request are
// played and every binding context the hook process receives (the real file) is compared with
// a reference renderer written from docs/src/HOOKS.md: required and forbidden keys per type,
// filterResult = jq result of that very object, object present iff full objects are kept,
// snapshots present iff the binding includes snapshots, with exactly the documented keys.

import (
	"k8s.io/apimachinery/pkg/apis/meta/v1/unstructured"
	"bytes"
	"context"
	"encoding/json"
	"fmt"
	"net/http"
	"net/http/httptest"
	"sort"
	"strings"
	"testing"
	"time"

	metav1 "k8s.io/apimachinery/pkg/apis/meta/v1"

	kubeeventsmanager "github.com/flant/shell-operator/pkg/kube_events_manager"
	schedulemanager "github.com/flant/shell-operator/pkg/schedule_manager"
	"github.com/flant/shell-operator/pkg/zzverif/vres"
	"github.com/flant/shell-operator/pkg/zzverif/vrt"
)

type c09opts struct {
	Jq       bool
	KeepFull bool
	Include  string // "" | self | other
	Group    bool
	WebIncl  bool // schedule / validating / mutating / conversion bindings include kb's snapshot
}

func (o c09opts) String() string {
	return fmt.Sprintf("jq=%v/keepFull=%v/include=%s/group=%v/webIncl=%v", o.Jq, o.KeepFull, o.Include, o.Group, o.WebIncl)
}

func c09config(o c09opts) string {
	s := "configVersion: v1\nonStartup: 1\nkubernetes:\n- name: kb\n  kind: ConfigMap\n  namespace: {nameSelector: {matchNames: [n1]}}\n"
	if o.Jq {
		s += "  jqFilter: \"{p: .data.v, f: (.metadata.managedFields | length)}\"\n"
	}
	if !o.KeepFull {
		s += "  keepFullObjectsInMemory: false\n"
	}
	switch o.Include {
	case "self":
		s += "  includeSnapshotsFrom: [kb]\n"
	case "other":
		s += "  includeSnapshotsFrom: [ko]\n"
	}
	if o.Group {
		s += "  group: g\n"
	}
	s += "- name: ko\n  kind: ConfigMap\n  namespace: {nameSelector: {matchNames: [n2]}}\n"
	incl := ""
	if o.WebIncl {
		incl = "  includeSnapshotsFrom: [kb]\n"
	}
	s += "schedule:\n- name: s1\n  crontab: \"* * * * *\"\n" + incl
	rules := "  rules:\n  - operations: [\"*\"]\n    apiGroups: [\"\"]\n    apiVersions: [\"v1\"]\n    resources: [\"configmaps\"]\n"
	s += "kubernetesValidating:\n- name: val.example.com\n" + incl + rules
	s += "kubernetesMutating:\n- name: mut.example.com\n" + incl + rules
	s += "kubernetesCustomResourceConversion:\n- name: conv\n  crdName: crontabs.stable.example.com\n" + incl + "  conversions:\n  - fromVersion: v1\n    toVersion: v2\n"
	return s
}

// c09obj: a ConfigMap as a real API server delivers it, with metadata.managedFields (the
// filter's projection reaches into them: filterResult is the jq result for that very object).
func c09obj(ns, name string, ver int) *unstructured.Unstructured {
	o := cmObj(ns, name, ver)
	md := o.Object["metadata"].(map[string]any)
	md["managedFields"] = []any{map[string]any{"manager": "kubectl", "operation": "Update", "apiVersion": "v1", "fieldsType": "FieldsV1",
		"fieldsV1": map[string]any{"f:data": map[string]any{"f:v": map[string]any{}}}}}
	return o
}

func keysOf(m map[string]any) []string {
	var ks []string
	for k := range m {
		ks = append(ks, k)
	}
	sort.Strings(ks)
	return ks
}

// c09checkItem validates one {object, filterResult} item.
func c09checkItem(o c09opts, item map[string]any, where string) string {
	obj, hasObj := item["object"]
	if o.KeepFull != hasObj {
		return fmt.Sprintf("%s: object present=%v, keepFullObjectsInMemory=%v", where, hasObj, o.KeepFull)
	}
	fr, hasFr := item["filterResult"]
	if o.Jq != hasFr {
		return fmt.Sprintf("%s: filterResult present=%v, jqFilter set=%v", where, hasFr, o.Jq)
	}
	if o.Jq && o.KeepFull {
		data, _ := obj.(map[string]any)["data"].(map[string]any)
		mf, _, _ := unstructured.NestedSlice(obj.(map[string]any), "metadata", "managedFields")
		want := map[string]any{"f": len(mf), "p": data["v"]}
		a, _ := json.Marshal(fr)
		b, _ := json.Marshal(want)
		if string(a) != string(b) {
			return fmt.Sprintf("%s: filterResult %s, jq of that object gives %s", where, a, b)
		}
	}
	if o.Jq && !o.KeepFull {
		m, ok := fr.(map[string]any)
		if !ok || m["p"] == nil || fmt.Sprint(m["f"]) != "1" {
			return fmt.Sprintf("%s: filterResult %v is not the jq result", where, fr)
		}
	}
	for k := range item {
		if k != "object" && k != "filterResult" {
			return fmt.Sprintf("%s: unexpected key %q", where, k)
		}
	}
	return ""
}

func c09snapKeys(c map[string]any) (string, bool) {
	sn, has := c["snapshots"]
	if !has {
		return "", false
	}
	m, _ := sn.(map[string]any)
	return strings.Join(keysOf(m), ","), true
}

// c09checkContext returns "" or a complaint.
func c09checkContext(o c09opts, c map[string]any) (sig string, msg string) {
	b, _ := c["binding"].(string)
	ty, _ := c["type"].(string)
	allowed := func(keys ...string) string {
		ok := map[string]bool{"binding": true}
		for _, k := range keys {
			ok[k] = true
		}
		for k := range c {
			if !ok[k] {
				return k
			}
		}
		return ""
	}
	wantSnap := func(keys string) (string, string) {
		got, has := c09snapKeys(c)
		if keys == "" {
			if has {
				return "snapshots-present", fmt.Sprintf("binding %s (%s) carries snapshots %q although it includes none", b, ty, got)
			}
			return "", ""
		}
		if !has {
			return "snapshots-missing", fmt.Sprintf("binding %s (%s) has no snapshots, want keys %s", b, ty, keys)
		}
		if got != keys {
			return "snapshots-keys", fmt.Sprintf("binding %s (%s) snapshots keys %q, want %q", b, ty, got, keys)
		}
		// every snapshot is a list of objects (empty when there is nothing), never null
		if m, _ := c["snapshots"].(map[string]any); m != nil {
			for k, v := range m {
				if _, isList := v.([]any); !isList {
					return "snapshot-not-a-list", fmt.Sprintf("binding %s (%s): snapshots.%s is %v, want a list", b, ty, k, v)
				}
			}
		}
		return "", ""
	}
	webIncl := ""
	if o.WebIncl {
		webIncl = "kb"
	}
	switch {
	case b == "onStartup":
		if k := allowed(); k != "" {
			return "forbidden-key type=onStartup", "onStartup context has key " + k
		}
	case b == "s1":
		if ty != "Schedule" {
			return "type", fmt.Sprintf("schedule context has type %q", ty)
		}
		if k := allowed("type", "snapshots"); k != "" {
			return "forbidden-key type=Schedule", "Schedule context has key " + k
		}
		return wantSnap(webIncl)
	case b == "val.example.com" || b == "mut.example.com":
		want := "Validating"
		if b == "mut.example.com" {
			want = "Mutating"
		}
		if ty != want {
			return "type", fmt.Sprintf("%s context has type %q", b, ty)
		}
		if _, ok := c["review"].(map[string]any); !ok {
			return "review-missing", b + " context has no review"
		}
		if k := allowed("type", "review", "snapshots"); k != "" {
			return "forbidden-key type=" + want, want + " context has key " + k
		}
		return wantSnap(webIncl)
	case b == "conv":
		if ty != "Conversion" {
			return "type", fmt.Sprintf("conversion context has type %q", ty)
		}
		if c["fromVersion"] != "v1" || c["toVersion"] != "v2" {
			return "conversion-versions", fmt.Sprintf("fromVersion %v toVersion %v", c["fromVersion"], c["toVersion"])
		}
		if _, ok := c["review"].(map[string]any); !ok {
			return "review-missing", "conversion context has no review"
		}
		if k := allowed("type", "fromVersion", "toVersion", "review", "snapshots"); k != "" {
			return "forbidden-key type=Conversion", "Conversion context has key " + k
		}
		return wantSnap(webIncl)
	case b == "ko":
		// plain binding: defaults
		plain := c09opts{KeepFull: true}
		return c09checkKube(plain, c, "")
	case b == "kb":
		snap := ""
		switch o.Include {
		case "self":
			snap = "kb"
		case "other":
			snap = "ko"
		}
		if o.Group {
			// group: includeSnapshotsFrom merged with the kubernetes bindings of the group
			set := map[string]bool{"kb": true}
			if snap != "" {
				set[snap] = true
			}
			var ks []string
			for k := range set {
				ks = append(ks, k)
			}
			sort.Strings(ks)
			snap = strings.Join(ks, ",")
		}
		return c09checkKube(o, c, snap)
	default:
		return "unknown-binding", fmt.Sprintf("context with binding %q", b)
	}
	return "", ""
}

func c09checkKube(o c09opts, c map[string]any, snap string) (string, string) {
	b, _ := c["binding"].(string)
	ty, _ := c["type"].(string)
	snapCheck := func() (string, string) {
		got, has := c09snapKeys(c)
		if snap == "" {
			if has {
				return "snapshots-present", fmt.Sprintf("binding %s (%s) carries snapshots %q although it includes none", b, ty, got)
			}
			return "", ""
		}
		if !has {
			return "snapshots-missing", fmt.Sprintf("binding %s (%s) has no snapshots, want keys %s", b, ty, snap)
		}
		if got != snap {
			return "snapshots-keys", fmt.Sprintf("binding %s (%s) snapshots keys %q, want %q", b, ty, got, snap)
		}
		// items of the snapshots follow the options of the binding they belong to
		return "", ""
	}
	if o.Group {
		if ty != "Group" {
			return "type", fmt.Sprintf("grouped binding %s has type %q", b, ty)
		}
		if c["groupName"] != "g" {
			return "groupName", fmt.Sprintf("groupName %v", c["groupName"])
		}
		for k := range c {
			if k != "binding" && k != "type" && k != "groupName" && k != "snapshots" {
				return "forbidden-key type=Group", "Group context has key " + k
			}
		}
		return snapCheck()
	}
	switch ty {
	case "Synchronization":
		objs, ok := c["objects"].([]any)
		if !ok {
			return "objects-missing", "Synchronization context without objects array"
		}
		for i, it := range objs {
			m, _ := it.(map[string]any)
			if msg := c09checkItem(o, m, fmt.Sprintf("%s Synchronization objects[%d]", b, i)); msg != "" {
				return "synchronization-item", msg
			}
		}
		for k := range c {
			if k != "binding" && k != "type" && k != "objects" && k != "snapshots" {
				return "forbidden-key type=Synchronization", "Synchronization context has key " + k
			}
		}
	case "Event":
		we, _ := c["watchEvent"].(string)
		if we != "Added" && we != "Modified" && we != "Deleted" {
			return "watchEvent", fmt.Sprintf("watchEvent %q", we)
		}
		item := map[string]any{}
		for k, v := range c {
			if k == "object" || k == "filterResult" {
				item[k] = v
			}
		}
		if msg := c09checkItem(o, item, fmt.Sprintf("%s Event %s", b, we)); msg != "" {
			return "event-item watchEvent=" + we, msg
		}
		for k := range c {
			if k != "binding" && k != "type" && k != "watchEvent" && k != "object" && k != "filterResult" && k != "snapshots" {
				return "forbidden-key type=Event", "Event context has key " + k
			}
		}
	default:
		return "type", fmt.Sprintf("kubernetes binding %s has type %q", b, ty)
	}
	return snapCheck()
}

func c09run(o c09opts) (sig, what string, seen map[string]int, panics []string) {
	seen = map[string]int{}
	opts := vrt.Options{Bound: 0, MaxSteps: 200000, DelayBound: true}
	var fxr *fixture
	var allCtx []map[string]any
	var notes []string
	x := vrt.Run(&opts, nil, nil, func(x *vrt.Exec) {
		fx := newFixture([]fxHook{{Name: "h.sh", Config: c09config(o)}})
		fxr = fx
		defer fx.close()
		hub := &kubeeventsmanager.ZZHub{}
		kubeeventsmanager.ZZInstallHub(hub)
		defer kubeeventsmanager.ZZInstallHub(nil)
		fx.withCluster()
		ctx := context.Background()
		dyn := fx.op.KubeClient.Dynamic()
		for _, ns := range []string{"n1", "n2"} {
			if _, err := dyn.Resource(cmGVR).Namespace(ns).Create(ctx, c09obj(ns, "a", 0), metav1.CreateOptions{}); err != nil {
				panic(err)
			}
		}
		fx.Script = func(run *fxRun) fxOutcome {
			out := fxOutcome{}
			for _, c := range run.Contexts {
				switch c["type"] {
				case "Validating", "Mutating":
					out.Admission = `{"allowed":true}`
				case "Conversion":
					out.Conversion = `{"convertedObjects":[{"apiVersion":"stable.example.com/v2","kind":"CronTab","metadata":{"name":"x"}}]}`
				}
			}
			return out
		}
		if err := fx.assemble(); err != nil {
			notes = append(notes, "config rejected: "+err.Error())
			return
		}
		if err := fx.withWebhooks(); err != nil {
			notes = append(notes, "webhook init: "+err.Error())
			return
		}
		webhooks := func(uid string) {
			for _, path := range []string{"/hooks/val-example-com", "/hooks/mut-example-com"} {
				body := `{"apiVersion":"admission.k8s.io/v1","kind":"AdmissionReview","request":{"uid":"` + uid + `","operation":"CREATE","object":{"apiVersion":"v1","kind":"ConfigMap","metadata":{"name":"x"}}}}`
				req := httptest.NewRequest(http.MethodPost, path, bytes.NewBufferString(body))
				req.Header.Set("Content-Type", "application/json")
				fx.op.AdmissionWebhookManager.Handler.Router.ServeHTTP(httptest.NewRecorder(), req)
			}
			cbody := `{"apiVersion":"apiextensions.k8s.io/v1","kind":"ConversionReview","request":{"uid":"` + uid + `","desiredAPIVersion":"stable.example.com/v2","objects":[{"apiVersion":"stable.example.com/v1","kind":"CronTab","metadata":{"name":"x"}}]}}`
			creq := httptest.NewRequest(http.MethodPost, "/crontabs.stable.example.com", bytes.NewBufferString(cbody))
			creq.Header.Set("Content-Type", "application/json")
			fx.op.ConversionWebhookManager.Handler.Router.ServeHTTP(httptest.NewRecorder(), creq)
		}
		// webhook requests can arrive as soon as the webhooks are registered, before the hook's
		// kubernetes bindings have been enabled by the main queue: the contexts follow the same rules
		webhooks("early")
		early := len(fx.Runs)
		fx.start()
		quiet := func() bool {
			if hub.Pending() || hub.Busy != 0 {
				return false
			}
			q := fx.op.TaskQueues.GetMain()
			return q != nil && q.IsEmpty() && idle(fx, "main")
		}
		if !vrt.WaitFor("startup", 30*time.Minute, func() bool { return quiet() && len(fx.Runs) >= early+2 && schedulemanager.ZZJobs(fx.op.ScheduleManager) >= 1 }) {
			notes = append(notes, "startup did not finish")
			return
		}
		finished := func() int {
			n := 0
			for _, r := range fx.Runs {
				if r.EndSeq > 0 {
					n++
				}
			}
			return n
		}
		step := func(f func()) {
			before := finished()
			f()
			// every step leads to at least one more hook execution
			vrt.WaitFor("settle", 10*time.Minute, func() bool { return finished() > before && quiet() && len(fx.op.KubeEventsManager.Ch()) == 0 })
		}
		step(func() { // Added
			ob := c09obj("n1", "b", 1)
			_, _ = dyn.Resource(cmGVR).Namespace("n1").Create(ctx, ob, metav1.CreateOptions{})
			hub.Notify(cmGVR, "add", nil, ob)
		})
		step(func() { // Modified
			old, _ := dyn.Resource(cmGVR).Namespace("n1").Get(ctx, "a", metav1.GetOptions{})
			ob := c09obj("n1", "a", 2)
			_, _ = dyn.Resource(cmGVR).Namespace("n1").Update(ctx, ob, metav1.UpdateOptions{})
			hub.Notify(cmGVR, "update", old, ob)
		})
		step(func() { // Deleted: the notification carries the object's final state, which nobody
			// has seen before (an API server sends it like that when the last finalizer goes)
			final := c09obj("n1", "a", 3)
			_ = dyn.Resource(cmGVR).Namespace("n1").Delete(ctx, "a", metav1.DeleteOptions{})
			hub.Notify(cmGVR, "delete", nil, final)
		})
		step(func() { schedulemanager.ZZRunJobs(fx.op.ScheduleManager) })
		webhooks("u1")
		for _, r := range fx.Runs {
			if r.FilesOK != "" {
				notes = append(notes, "file: "+r.FilesOK)
			}
			allCtx = append(allCtx, r.Contexts...)
		}
	})
	_ = fxr
	if len(x.Panics) > 0 {
		return "C09 panic", strings.Join(x.Panics, "\n"), seen, x.Panics
	}
	if len(notes) > 0 {
		return "C09 scenario", strings.Join(notes, "; "), seen, nil
	}
	for _, c := range allCtx {
		ty, _ := c["type"].(string)
		b, _ := c["binding"].(string)
		seen[b+"/"+ty]++
		if s, m := c09checkContext(o, c); s != "" {
			j, _ := json.Marshal(c)
			if len(j) > 500 {
				j = j[:500]
			}
			return "C09 " + s, m + " | context: " + string(j), seen, nil
		}
	}
	// every kind of context was seen
	want := []string{"onStartup/", "s1/", "val.example.com/Validating", "mut.example.com/Mutating", "conv/Conversion", "ko/Synchronization"}
	if !o.Group {
		want = append(want, "kb/Synchronization", "kb/Event")
	} else {
		want = append(want, "kb/Group")
	}
	for _, w := range want {
		found := false
		for k := range seen {
			if strings.HasPrefix(k, w) {
				found = true
			}
		}
		if !found {
			return "C09 context-kind-not-delivered", fmt.Sprintf("no context %s was delivered (seen %v)", w, seen), seen, nil
		}
	}
	return "", "", seen, nil
}

func TestVerifC09(t *testing.T) {
	r := vres.New("c09")
	defer r.Finish()
	var cases []c09opts
	for _, jq := range []bool{false, true} {
		for _, keep := range []bool{true, false} {
			for _, inc := range []string{"", "self", "other"} {
				for _, grp := range []bool{false, true} {
					for _, web := range []bool{false, true} {
						cases = append(cases, c09opts{jq, keep, inc, grp, web})
					}
				}
			}
		}
	}
	r.Bound("option_vectors", len(cases))
	r.Bound("config_versions", "v1 (all option vectors), v0 (one scenario)")
	if (vres.Mine(int64(len(cases))) || r.Replaying()) && r.Want("configVersion=v0") {
		sig, what, seen := c09runV0()
		r.Eval(1)
		if sig != "" {
			r.Violation(sig, "configVersion=v0", what, nil)
			r.Outcome("V:"+sig, true)
		} else {
			r.State("configVersion=v0")
			r.Outcome("configVersion=v0", true)
			r.Sample(map[string]any{"options": "configVersion=v0", "contexts_checked": seen})
		}
	}
	if (vres.Mine(int64(len(cases)+1)) || r.Replaying()) && r.Want("combined-array") {
		sig, what := c09runCombined()
		r.Eval(1)
		if sig != "" {
			r.Violation(sig, "combined-array", what, nil)
			r.Outcome("V:"+sig, true)
		} else {
			r.State("combined-array")
			r.Outcome("combined-array", true)
		}
	}
	for i, o := range cases {
		if !(vres.Mine(int64(i)) || r.Replaying()) {
			continue
		}
		key := o.String()
		if !r.Want(key) {
			continue
		}
		sig, what, seen, _ := c09run(o)
		r.Eval(1)
		n := 0
		for _, v := range seen {
			n += v
		}
		r.Transition(int64(n))
		if sig != "" {
			r.Violation(sig, key, what, nil)
			r.Outcome("V:"+sig, true)
			continue
		}
		r.State(key)
		r.Outcome(key, o.Jq || !o.KeepFull || o.Include != "" || o.Group || o.WebIncl)
		r.Sample(map[string]any{"options": key, "contexts_checked": seen})
		if r.Expired() {
			return
		}
	}
}
