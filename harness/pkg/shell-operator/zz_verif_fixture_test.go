package shell_operator

// Operator-level fixture shared by the harnesses of this package (DESIGN.md Appendix B).
// It assembles a real ShellOperator the way operator_test.go does; hook processes are
// replaced by an in-process stand-in behind the executor seam: it answers `--config` with
// the configuration text of the spec and, for a run, reads the real temporary files the
// operator prepared, records what the hook would have seen and plays a scripted outcome.

import (
	"context"
	"encoding/json"
	"fmt"
	"os"
	"os/exec"
	"path/filepath"
	"runtime"
	"sort"
	"strings"
	"sync"
	"time"

	"github.com/deckhouse/deckhouse/pkg/log"
	"k8s.io/apimachinery/pkg/apis/meta/v1/unstructured"
	"k8s.io/apimachinery/pkg/runtime/schema"

	"github.com/flant/shell-operator/pkg/app"
	"github.com/flant/shell-operator/pkg/executor"
	"github.com/flant/shell-operator/pkg/webhook/admission"
	"github.com/flant/shell-operator/pkg/webhook/conversion"
	"github.com/flant/shell-operator/pkg/hook/task_metadata"
	objectpatch "github.com/flant/shell-operator/pkg/kube/object_patch"
	metricstorage "github.com/flant/shell-operator/pkg/metric_storage"
	schedulemanager "github.com/flant/shell-operator/pkg/schedule_manager"
	"github.com/flant/shell-operator/pkg/task"
	"github.com/flant/shell-operator/pkg/task/queue"
	"github.com/flant/shell-operator/pkg/zzverif/vfx"
	"github.com/flant/shell-operator/pkg/zzverif/vrt"
)

type fxHook struct {
	Name       string // path relative to the hooks dir
	Config     string // what `--config` prints
	ConfigExit int
}

// fxOutcome is what the stand-in hook does in one run.
type fxOutcome struct {
	Exit       int
	Metrics    string
	Patch      string
	Admission  string
	Conversion string
	Duration   time.Duration  // virtual time the hook takes (scheduler mode)
	Block      func() bool    // if set: the hook does not finish until it returns true (scheduler mode)
}

type fxRun struct {
	Seq      int
	Hook     string
	Queue    string
	TaskID   string
	Raw      string
	Contexts []map[string]any
	Env      map[string]string
	Dir      string
	Exit     int
	StartVT  time.Duration
	EndVT    time.Duration
	StartSeq int // global event counter at start / end (for overlap checks)
	EndSeq   int
	FilesOK  string // "" or a complaint about the prepared files
	Failed   bool   // the script made this run fail (by exit code or by its output files)
}

type fxTaskEvent struct {
	Seq    int
	Queue  string
	TaskID string
	Kind   string // begin | end
	Desc   string
	Status string
	Head   string // id of items[0] of the queue at handler entry
	VT     time.Duration
	Thread int // scheduler thread that handled the task
	Step   int // scheduler step count at this moment
}

type fixture struct {
	mu       sync.Mutex
	dir      string
	tmp      string
	hooks    map[string]fxHook // by absolute path
	op       *ShellOperator
	cancel   context.CancelFunc
	Runs     []*fxRun
	Events   []fxTaskEvent
	seq      int
	Script   func(run *fxRun) fxOutcome
	cur      map[int64]string // thread key -> queue name currently handling
	curTask  map[int64]string
	Configs  int // number of --config invocations
	OnTaskBegin func(queue string, t task.Task)
	OnTaskEnd   func(queue string, t task.Task)
	ConfigBy map[string]int
}

var fxCurrent *fixture

func init() {
	os.Setenv("QUEUE_ACTIONS_METRICS", "no")
	log.SetDefault(log.NewNop())
}

func fxThreadKey() int64 {
	if x := vrt.Active(); x != nil {
		return int64(vrt.ThreadID())
	}
	// free-running: goroutine id
	var buf [64]byte
	n := runtime.Stack(buf[:], false)
	var id int64
	for _, c := range buf[len("goroutine "):n] {
		if c < '0' || c > '9' {
			break
		}
		id = id*10 + int64(c-'0')
	}
	return -id - 1
}

func fxBaseDir() string {
	if st, err := os.Stat("/dev/shm"); err == nil && st.IsDir() {
		return "/dev/shm"
	}
	return os.TempDir()
}

func newFixture(hooks []fxHook) *fixture {
	base, err := os.MkdirTemp(fxBaseDir(), "zzverif-fx-")
	if err != nil {
		panic(err)
	}
	fx := &fixture{dir: filepath.Join(base, "hooks"), tmp: filepath.Join(base, "tmp"), hooks: map[string]fxHook{},
		cur: map[int64]string{}, curTask: map[int64]string{}, ConfigBy: map[string]int{}}
	_ = os.MkdirAll(fx.dir, 0o755)
	_ = os.MkdirAll(fx.tmp, 0o755)
	for _, h := range hooks {
		p := filepath.Join(fx.dir, h.Name)
		_ = os.MkdirAll(filepath.Dir(p), 0o755)
		if err := os.WriteFile(p, []byte("#!/bin/sh\nexit 99\n"), 0o755); err != nil {
			panic(err)
		}
		fx.hooks[p] = h
	}
	fxCurrent = fx
	executor.ZZStandIn = fx.standIn
	// every queue's handler is wrapped where the queue receives it (seam in task_queue.go), so
	// begin / end of every task handling is recorded whichever way the queue was created
	queue.ZZHandlerWrap = func(q *queue.TaskQueue, handler func(task.Task) queue.TaskResult) func(task.Task) queue.TaskResult {
		return func(t task.Task) queue.TaskResult {
			name := q.Name
			fx.taskBegin(name, t)
			r := handler(t)
			fx.taskEnd(name, t, r)
			return r
		}
	}

	ctx, cancel := context.WithCancel(context.Background())
	fx.cancel = cancel
	op := NewShellOperator(ctx, WithLogger(log.NewNop()))
	op.MetricStorage = vfx.NopStorage{}
	op.HookMetricStorage = metricstorage.NewMetricStorage(ctx, "", true, log.NewNop())
	fx.op = op
	return fx
}

// assemble runs the operator's own assembly steps up to (not including) Start().
func (fx *fixture) assemble() error {
	op := fx.op
	op.SetupEventManagers()
	op.setupHookManagers(fx.dir, fx.tmp)
	return op.initHookManager()
}

func (fx *fixture) close() {
	fx.cancel()
	executor.ZZStandIn = nil
	queue.ZZHandlerWrap = nil
	fxCurrent = nil
	_ = os.RemoveAll(filepath.Dir(fx.dir))
}

func (fx *fixture) nextSeq() int {
	fx.seq++
	return fx.seq
}

func envMap(env []string) map[string]string {
	m := map[string]string{}
	for _, e := range env {
		if i := strings.IndexByte(e, '='); i > 0 {
			k := e[:i]
			switch k {
			case "BINDING_CONTEXT_PATH", "METRICS_PATH", "CONVERSION_RESPONSE_PATH", "VALIDATING_RESPONSE_PATH", "ADMISSION_RESPONSE_PATH", "KUBERNETES_PATCH_PATH":
				m[k] = e[i+1:]
			}
		}
	}
	return m
}

func (fx *fixture) standIn(cmd *exec.Cmd) (bool, []byte, []byte, int) {
	h, ok := fx.hooks[cmd.Path]
	if !ok {
		return false, nil, nil, 0
	}
	if len(cmd.Args) > 1 && cmd.Args[1] == "--config" {
		fx.mu.Lock()
		fx.Configs++
		fx.ConfigBy[h.Name]++
		fx.mu.Unlock()
		return true, []byte(h.Config), nil, h.ConfigExit
	}
	env := envMap(cmd.Env)
	run := &fxRun{Hook: h.Name, Env: env, Dir: cmd.Dir}
	fx.mu.Lock()
	run.Seq = len(fx.Runs)
	run.StartSeq = fx.nextSeq()
	k := fxThreadKey()
	run.Queue = fx.cur[k]
	run.TaskID = fx.curTask[k]
	fx.Runs = append(fx.Runs, run)
	fx.mu.Unlock()
	if x := vrt.Active(); x != nil {
		run.StartVT = x.Now()
	}
	raw, err := os.ReadFile(env["BINDING_CONTEXT_PATH"])
	if err != nil {
		run.FilesOK = "binding context file: " + err.Error()
	}
	run.Raw = string(raw)
	if err := json.Unmarshal(raw, &run.Contexts); err != nil && run.FilesOK == "" {
		run.FilesOK = "binding context is not a JSON array: " + err.Error()
	}
	for _, k := range []string{"METRICS_PATH", "CONVERSION_RESPONSE_PATH", "VALIDATING_RESPONSE_PATH", "ADMISSION_RESPONSE_PATH", "KUBERNETES_PATCH_PATH"} {
		st, err := os.Stat(env[k])
		if err != nil {
			run.FilesOK += " " + k + " missing"
		} else if st.Size() != 0 {
			run.FilesOK += " " + k + " not empty"
		}
	}
	out := fxOutcome{}
	if fx.Script != nil {
		out = fx.Script(run)
	}
	if out.Block != nil && vrt.Active() != nil {
		vrt.Wait("hook-gate", out.Block)
	}
	if out.Duration > 0 && vrt.Active() != nil {
		vrt.SleepVirtual(out.Duration)
	}
	write := func(key, content string) {
		if content != "" {
			_ = os.WriteFile(env[key], []byte(content), 0o644)
		}
	}
	write("METRICS_PATH", out.Metrics)
	write("KUBERNETES_PATCH_PATH", out.Patch)
	write("ADMISSION_RESPONSE_PATH", out.Admission)
	write("CONVERSION_RESPONSE_PATH", out.Conversion)
	run.Exit = out.Exit
	fx.mu.Lock()
	run.EndSeq = fx.nextSeq()
	fx.mu.Unlock()
	if x := vrt.Active(); x != nil {
		run.EndVT = x.Now()
	}
	return true, nil, nil, out.Exit
}

func (fx *fixture) taskBegin(qname string, t task.Task) {
	if fx.OnTaskBegin != nil {
		fx.OnTaskBegin(qname, t)
	}
	head := ""
	if q := fx.op.TaskQueues.GetByName(qname); q != nil {
		if h := q.GetFirst(); h != nil {
			head = h.GetId()
		}
	}
	fx.mu.Lock()
	defer fx.mu.Unlock()
	k := fxThreadKey()
	fx.cur[k] = qname
	ev := fxTaskEvent{Seq: fx.nextSeq(), Queue: qname, Kind: "begin", Head: head}
	if t != nil {
		fx.curTask[k] = t.GetId()
		ev.TaskID = t.GetId()
		ev.Desc = t.GetDescription()
	} else {
		ev.Desc = "<nil task>"
	}
	if x := vrt.Active(); x != nil {
		ev.VT = x.Now()
		ev.Thread = vrt.ThreadID()
		ev.Step = len(x.Trace)
	}
	fx.Events = append(fx.Events, ev)
}

func (fx *fixture) taskEnd(qname string, t task.Task, r queue.TaskResult) {
	if fx.OnTaskEnd != nil {
		fx.OnTaskEnd(qname, t)
	}
	fx.mu.Lock()
	defer fx.mu.Unlock()
	k := fxThreadKey()
	delete(fx.cur, k)
	delete(fx.curTask, k)
	ev := fxTaskEvent{Seq: fx.nextSeq(), Queue: qname, Kind: "end", Status: string(r.Status)}
	if t != nil {
		ev.TaskID = t.GetId()
		ev.Desc = t.GetDescription()
	}
	if x := vrt.Active(); x != nil {
		ev.VT = x.Now()
	}
	fx.Events = append(fx.Events, ev)
}

// ---- scheduler mode ----

// operator.go is compiled with these call sites routed here (see tools/registry.py): the HTTP
// server, the metrics loops and cron's own goroutine are outside every property and would
// only add free-running goroutines.
func zzNoopAPIStart(_ *baseHTTPServer, _ context.Context)      {}
func zzNoopRunMetrics(_ *ShellOperator)                         {}
func zzNoopSchedStart(_ schedulemanager.ScheduleManager)        {}

// withCluster gives the operator a fresh fake cluster and an object patcher on it.
func (fx *fixture) withCluster() {
	fx.op.KubeClient = vfx.NewMiniCluster()
	fx.op.ObjectPatcher = objectpatch.NewObjectPatcher(fx.op.KubeClient, log.NewNop())
}

func zzNoopAdmStart(_ *admission.WebhookManager) error   { return nil }
func zzNoopConvStart(_ *conversion.WebhookManager) error { return nil }

// withWebhooks runs the operator's own admission / conversion initialisation; the TLS servers
// and the registration of webhook configurations in the cluster (Start) are behind no-op seams.
func (fx *fixture) withWebhooks() error {
	ca := filepath.Join(filepath.Dir(fx.dir), "ca.crt")
	_ = os.WriteFile(ca, []byte("dummy CA bundle\n"), 0o644)
	as := *app.ValidatingWebhookSettings
	as.CAPath = ca
	fx.op.AdmissionWebhookManager.Settings = &as
	cs := *app.ConversionWebhookSettings
	cs.CAPath = ca
	fx.op.ConversionWebhookManager.Settings = &cs
	if err := fx.op.initValidatingWebhookManager(); err != nil {
		return err
	}
	return fx.op.initConversionWebhookManager()
}

// start runs the operator's own Start().
func (fx *fixture) start() { fx.op.Start() }

// runsOf returns the recorded runs of one hook.
func (fx *fixture) runsOf(hook string) []*fxRun {
	var out []*fxRun
	for _, r := range fx.Runs {
		if r.Hook == hook {
			out = append(out, r)
		}
	}
	return out
}

// queueDump lists "<type>:<hook>:<binding>" of every task of a queue.
func (fx *fixture) queueDump(name string) []string {
	var out []string
	q := fx.op.TaskQueues.GetByName(name)
	if q == nil {
		return nil
	}
	q.Iterate(func(t task.Task) {
		if t == nil {
			out = append(out, "<nil>")
			return
		}
		hm := task_metadata.HookMetadataAccessor(t)
		out = append(out, fmt.Sprintf("%s:%s:%s", t.GetType(), hm.HookName, hm.Binding))
	})
	return out
}

func sortedKeys[V any](m map[string]V) []string {
	ks := make([]string, 0, len(m))
	for k := range m {
		ks = append(ks, k)
	}
	sort.Strings(ks)
	return ks
}

// tmpLeft lists what is left in the operator's temp dir.
func (fx *fixture) tmpLeft() []string {
	es, _ := os.ReadDir(fx.tmp)
	var out []string
	for _, e := range es {
		out = append(out, e.Name())
	}
	return out
}

// hookStorage is the real metric storage for hook metrics with a way to look into its registry.
type hookStorage struct {
	*metricstorage.MetricStorage
}

func newHookMetricStorage(ctx context.Context) *hookStorage {
	return &hookStorage{metricstorage.NewMetricStorage(ctx, "", true, log.NewNop())}
}

func (h *hookStorage) has(name string) bool {
	fams, _ := h.Gatherer.Gather()
	for _, f := range fams {
		if f.GetName() == name {
			return true
		}
	}
	return false
}

var cmGVR = schema.GroupVersionResource{Version: "v1", Resource: "configmaps"}

func cmObj(ns, name string, ver int) *unstructured.Unstructured {
	return &unstructured.Unstructured{Object: map[string]any{
		"apiVersion": "v1", "kind": "ConfigMap",
		"metadata": map[string]any{"name": name, "namespace": ns},
		"data":     map[string]any{"v": fmt.Sprint(ver)},
	}}
}

