package shell_operator

// C18 — the execution rate limit from `settings` is respected.
// The assembled operator runs on the virtual clock with golang.org/x/time/rate compiled
// against the virtual time shim, so the limiter's waits are scheduler-visible. For every
// (executionMinInterval I, executionBurst B) of a small set, every arrival pattern (gap
// sequences over {0, I/2, I, 2I}) and two hook durations the start times of the hook's
// executions are checked: for all i<j,  j-i+1 <= B + ceil((t_j - t_i)/I). A hook without
// settings (in a queue of its own) is never delayed.

import (
	"context"
	"fmt"
	"strings"
	"testing"
	"time"

	metav1 "k8s.io/apimachinery/pkg/apis/meta/v1"

	kubeeventsmanager "github.com/flant/shell-operator/pkg/kube_events_manager"
	"github.com/flant/shell-operator/pkg/zzverif/vres"
	"github.com/flant/shell-operator/pkg/zzverif/vrt"
)

type c18case struct {
	I        time.Duration // 0: no settings
	B        int
	Gaps     []int // multiples of I/2
	Duration time.Duration
	Fails    int // the first Fails event runs of the throttled hook fail (retries are executions too)
	// Shape of the throttled hook: "" one binding in queue qa; "multi" three bindings in qa (three
	// Synchronization executions back to back at start-up); "twoq" two bindings in two queues
	// (executions of one hook started by two queue workers at the same instant)
	Shape string
}

func (c c18case) String() string {
	gaps := fmt.Sprint(c.Gaps)
	if len(c.Gaps) > 20 {
		gaps = fmt.Sprintf("[%d arrivals at one instant]", len(c.Gaps))
	}
	s := fmt.Sprintf("I=%s/B=%d/gaps=%s/dur=%s/fails=%d", c.I, c.B, gaps, c.Duration, c.Fails)
	if c.Shape != "" {
		s += "/" + c.Shape
	}
	return s
}

func c18hookA(c c18case) string {
	s := "configVersion: v1\n"
	if c.I > 0 {
		s += fmt.Sprintf("settings:\n  executionMinInterval: %s\n  executionBurst: %d\n", c.I, c.B)
	}
	s += "kubernetes:\n- name: kb\n  kind: ConfigMap\n  queue: qa\n  namespace: {nameSelector: {matchNames: [n1]}}\n"
	switch c.Shape {
	case "multi":
		s += "- name: kb2\n  kind: ConfigMap\n  queue: qa\n  namespace: {nameSelector: {matchNames: [n1]}}\n- name: kb3\n  kind: ConfigMap\n  queue: qa\n  namespace: {nameSelector: {matchNames: [n1]}}\n"
	case "twoq":
		s += "- name: kc\n  kind: ConfigMap\n  queue: qa2\n  namespace: {nameSelector: {matchNames: [n2]}}\n"
	case "webhook":
		// the throttled hook also serves an admission webhook: its queued executions are throttled all the same
		s += "kubernetesValidating:\n- name: val.example.com\n  rules:\n  - operations: [\"*\"]\n    apiGroups: [\"\"]\n    apiVersions: [\"v1\"]\n    resources: [\"configmaps\"]\n"
	}
	return s
}

const c18hookB = "configVersion: v1\nkubernetes:\n- name: kfree\n  kind: ConfigMap\n  queue: qb\n  namespace: {nameSelector: {matchNames: [n2]}}\n"

// shape "shared": the hook without settings is bound to the same objects and shares the queue of
// the throttled hook, so that their tasks alternate in that queue (and are not combined)
const c18hookBshared = "configVersion: v1\nkubernetes:\n- name: kfree\n  kind: ConfigMap\n  queue: qa\n  namespace: {nameSelector: {matchNames: [n1]}}\n"

type c18obs struct {
	fx      *fixture
	Case    c18case
	Arrive  []time.Duration
	Settled bool
	End     string
	Panics  []string
	Blocked []string
}

func c18body(c c18case, obs *c18obs) func(x *vrt.Exec) {
	return func(x *vrt.Exec) {
		hookB := c18hookB
		if c.Shape == "shared" {
			hookB = c18hookBshared
		}
		fx := newFixture([]fxHook{{Name: "a.sh", Config: c18hookA(c)}, {Name: "b.sh", Config: hookB}})
		obs.fx, obs.Case = fx, c
		defer fx.close()
		hub := &kubeeventsmanager.ZZHub{}
		kubeeventsmanager.ZZInstallHub(hub)
		defer kubeeventsmanager.ZZInstallHub(nil)
		fx.withCluster()
		ctx := context.Background()
		dyn := fx.op.KubeClient.Dynamic()
		for _, ns := range []string{"n1", "n2"} {
			if _, err := dyn.Resource(cmGVR).Namespace(ns).Create(ctx, cmObj(ns, "o", 0), metav1.CreateOptions{}); err != nil {
				panic(err)
			}
		}
		failed := 0
		fx.Script = func(run *fxRun) fxOutcome {
			if run.Hook == "a.sh" {
				if len(run.Contexts) > 0 && run.Contexts[0]["type"] == "Event" && failed < c.Fails {
					failed++
					run.Failed = true
					return fxOutcome{Duration: c.Duration, Exit: 1}
				}
				return fxOutcome{Duration: c.Duration}
			}
			return fxOutcome{}
		}
		vrt.Exploring(false)
		var err error
		vrt.Atomic(func() { err = fx.assemble() })
		if err != nil {
			panic(err)
		}
		if c.Shape == "webhook" {
			if err := fx.withWebhooks(); err != nil {
				panic(err)
			}
		}
		fx.start()
		ok := vrt.WaitFor("startup", 30*time.Minute, func() bool {
			return fx.op.TaskQueues.GetMain() != nil && fx.op.TaskQueues.GetMain().IsEmpty() && idle(fx, "main") && len(fx.Runs) >= 2 && !hub.Pending() && hub.Busy == 0
		})
		if !ok {
			return
		}
		unit := c.I / 2
		if unit == 0 {
			unit = 500 * time.Millisecond
		}
		envDone := false
		vrt.GoNamed("env", func() {
			for i, g := range c.Gaps {
				if g > 0 {
					vrt.SleepVirtual(time.Duration(g) * unit)
				}
				obs.Arrive = append(obs.Arrive, x.Now())
				for _, ns := range []string{"n1", "n2"} {
					old, _ := dyn.Resource(cmGVR).Namespace(ns).Get(ctx, "o", metav1.GetOptions{})
					o := cmObj(ns, "o", i+1)
					if _, err := dyn.Resource(cmGVR).Namespace(ns).Update(ctx, o, metav1.UpdateOptions{}); err != nil {
						panic(err)
					}
					hub.Notify(cmGVR, "update", old, o)
				}
			}
			envDone = true
		})
		obs.Settled = vrt.WaitFor("settled", 60*time.Minute, func() bool {
			if !envDone || hub.Pending() || hub.Busy != 0 {
				return false
			}
			for _, q := range []string{"main", "qa", "qa2", "qb"} {
				if tq := fx.op.TaskQueues.GetByName(q); tq != nil && (!tq.IsEmpty() || !idle(fx, q)) {
					return false
				}
			}
			// the last version must have been seen by both hooks
			want := fmt.Sprintf("/v%d/", len(c.Gaps))
			seen := map[string]bool{}
			for _, r := range fx.Runs {
				if r.EndSeq == 0 || r.Failed {
					continue
				}
				for _, cc := range r.Contexts {
					if strings.Contains(ctxKey(cc)+"/", want) {
						seen[r.Hook] = true
					}
				}
			}
			return seen["a.sh"] && seen["b.sh"]
		})
	}
}

func c18check(obs *c18obs) (string, string) {
	c := obs.Case
	if len(obs.Panics) > 0 {
		return "C18 panic", strings.Join(obs.Panics, "\n")
	}
	if obs.End == "deadlock" {
		return "C18 deadlock", strings.Join(obs.Blocked, "; ")
	}
	if !obs.Settled {
		return "C18 not-settled", fmt.Sprintf("end=%s runs=%s", obs.End, c03runs(obs.fx))
	}
	var ta []time.Duration
	for _, r := range obs.fx.Runs {
		if r.Hook == "a.sh" {
			ta = append(ta, r.StartVT)
		}
	}
	if c.I > 0 {
		for i := 0; i < len(ta); i++ {
			for j := i + 1; j < len(ta); j++ {
				d := ta[j] - ta[i]
				allowed := c.B + int((d+c.I-1)/c.I)
				if j-i+1 > allowed {
					return "C18 rate-exceeded", fmt.Sprintf("executions %d..%d (%d of them) started within %s: more than burst %d + window/interval (%s); start times %v", i, j, j-i+1, d, c.B, c.I, ta)
				}
			}
		}
	}
	// the hook without settings is never delayed: it starts when its event arrives (its queue is otherwise idle, its runs take no time)
	last := map[string]time.Duration{}
	for _, r := range obs.fx.Runs {
		if r.Hook != "b.sh" {
			continue
		}
		for _, cc := range r.Contexts {
			if cc["type"] == "Event" {
				last[ctxKey(cc)] = r.StartVT
			}
		}
	}
	for i, at := range obs.Arrive {
		if c.Shape == "shared" {
			break // in a shared queue the hook without settings waits behind the throttled one
		}
		k := fmt.Sprintf("kfree/Event/v%d/Modified", i+1)
		if st, ok := last[k]; ok && st > at+300*time.Millisecond {
			return "C18 unthrottled-hook-delayed", fmt.Sprintf("the hook without settings got %s at +%s, the change happened at +%s", k, st, at)
		}
	}
	if c.I == 0 {
		// without settings executions are only delayed by the previous run of the same queue
		var prevEnd time.Duration
		idx := 0
		for _, r := range obs.fx.Runs {
			if r.Hook != "a.sh" {
				continue
			}
			for _, cc := range r.Contexts {
				if cc["type"] == "Event" && idx < len(obs.Arrive) {
					earliest := obs.Arrive[idx]
					if prevEnd > earliest {
						earliest = prevEnd
					}
					if r.StartVT > earliest+300*time.Millisecond {
						return "C18 throttled-without-settings", fmt.Sprintf("run for %s started at +%s, could start at +%s", ctxKey(cc), r.StartVT, earliest)
					}
					break
				}
			}
			if len(r.Contexts) > 0 && r.Contexts[0]["type"] == "Event" {
				idx += len(r.Contexts)
			}
			prevEnd = r.EndVT
		}
	}
	return "", ""
}

func TestVerifC18(t *testing.T) {
	r := vres.New("c18")
	defer r.Finish()
	maxLen := vres.Pick(4, 5)
	type ib struct {
		I time.Duration
		B int
	}
	cfgs := []ib{{time.Second, 1}, {2 * time.Second, 3}, {500 * time.Millisecond, 2}, {0, 0}}
	var cases []c18case
	for _, cf := range cfgs {
		for n := 1; n <= maxLen; n++ {
			idx := make([]int, n)
			for {
				gaps := make([]int, n)
				for i, v := range idx {
					gaps[i] = []int{0, 1, 2, 4}[v]
				}
				for _, dur := range []time.Duration{0, cf.I} {
					if dur == 0 || cf.I > 0 {
						cases = append(cases, c18case{cf.I, cf.B, gaps, dur, 0, ""})
					}
				}
				i := n - 1
				for i >= 0 {
					idx[i]++
					if idx[i] < 4 {
						break
					}
					idx[i] = 0
					i--
				}
				if i < 0 {
					break
				}
			}
		}
	}
	// other hook shapes: several Synchronization executions back to back; one hook served by two queues
	for _, cf := range cfgs {
		if cf.I == 0 {
			continue
		}
		for _, gaps := range [][]int{{0}, {0, 0}, {1, 0}, {4}} {
			cases = append(cases, c18case{cf.I, cf.B, gaps, 0, 0, "multi"}, c18case{cf.I, cf.B, gaps, 0, 0, "twoq"})
		}
		for _, gaps := range [][]int{{0, 0}, {1, 1, 1}} {
			cases = append(cases, c18case{cf.I, cf.B, gaps, 0, 0, "webhook"})
		}
		// a backlog in a shared queue: several changes at once, the two hooks' tasks alternate
		for _, gaps := range [][]int{{0, 0, 0, 0}, {0, 0, 0, 0, 0, 0}, {1, 0, 0, 0}} {
			cases = append(cases, c18case{cf.I, cf.B, gaps, 0, 0, "shared"})
		}
	}
	// an interval longer than the operator's shutdown timeout (10 s): the wait is simply longer
	for _, gaps := range [][]int{{0}, {0, 0}, {1, 0}, {0, 1, 1}, {1, 1, 1, 1}} {
		cases = append(cases, c18case{30 * time.Second, 1, gaps, 0, 0, ""}, c18case{time.Minute, 2, gaps, 0, 0, ""})
	}
	// a long backlog: more than a thousand changes arrive while the hook waits for its next slot;
	// they are one execution's worth of contexts, however many there are
	cases = append(cases, c18case{time.Second, 1, make([]int, 1200), 0, 0, ""}, c18case{2 * time.Second, 3, make([]int, 1200), 0, 0, ""})
	// failing runs: retries are executions as well and must respect the limit (interval longer than the back-off)
	for _, fails := range []int{1, 2, 3} {
		cases = append(cases, c18case{30 * time.Second, 1, []int{0}, 0, fails, ""}, c18case{30 * time.Second, 2, []int{0, 1}, 0, fails, ""}, c18case{8 * time.Second, 1, []int{0}, 0, fails, ""})
	}
	r.Bound("configurations", "(1s,1) (2s,3) (500ms,2) none; with failing runs (30s,1) (30s,2) (8s,1)")
	r.Bound("max_arrivals", maxLen)
	r.Bound("cases", len(cases))
	shard, shards := vres.Shard()
	for i, c := range cases {
		if !r.Replaying() && i%shards != shard {
			continue
		}
		c := c
		key := c.String()
		if !r.Want(key) {
			continue
		}
		var obs *c18obs
		body := func(x *vrt.Exec) {
			obs = &c18obs{}
			c18body(c, obs)(x)
		}
		opts := vrt.Options{Bound: 0, MaxSteps: 300000, DelayBound: true}
		x := vrt.Run(&opts, nil, nil, body)
		obs.End, obs.Panics, obs.Blocked = x.End, x.Panics, x.Blocked
		r.Eval(1)
		r.Transition(int64(x.Steps))
		sig, what := c18check(obs)
		if sig != "" {
			r.Violation(sig, key, what, nil)
			r.Outcome("V:"+sig, true)
			continue
		}
		var ta []string
		for _, run := range obs.fx.Runs {
			if run.Hook == "a.sh" {
				ta = append(ta, run.StartVT.String())
			}
		}
		oc := key + "|" + strings.Join(ta, ",")
		r.State(oc)
		r.Outcome(strings.Join(ta, ","), len(c.Gaps) > 1)
		r.Sample(map[string]any{"case": key, "arrivals": fmt.Sprint(obs.Arrive), "hook_start_times": ta})
		if r.Expired() {
			return
		}
	}
}
