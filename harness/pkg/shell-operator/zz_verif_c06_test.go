package shell_operator

// C06 part b — start-up order on the execution log of the real operator.
// Hook sets are generated from a menu of hook templates (onStartup, kubernetes bindings with
// and without group, executeHookOnSynchronization false, a v0 hook, schedules, a named
// queue); the j-th start-up execution fails k times; an environment thread fires ticks and
// cluster changes from the very first moment. All schedules within the delay bound.

import (
	corev1 "k8s.io/api/core/v1"
	"k8s.io/apimachinery/pkg/runtime"
	fakedynamic "k8s.io/client-go/dynamic/fake"
	k8stesting "k8s.io/client-go/testing"

	"context"
	"fmt"
	"sort"
	"strings"
	"testing"
	"time"

	metav1 "k8s.io/apimachinery/pkg/apis/meta/v1"

	kubeeventsmanager "github.com/flant/shell-operator/pkg/kube_events_manager"
	schedulemanager "github.com/flant/shell-operator/pkg/schedule_manager"
	"github.com/flant/shell-operator/pkg/zzverif/vres"
	"github.com/flant/shell-operator/pkg/zzverif/vrt"
)

type c06tmpl struct {
	id      string
	config  string
	order   int      // onStartup order, 0 = no onStartup
	syncs   []string // expected start-up executions after onStartup: "sync:<binding>" or "group:<g>"
	events  map[string]string // binding -> the start-up item that must precede its Events ("" = none)
	scheds  []string
	noSync  []string // bindings that must never get a Synchronization context
	// lateNs: during the first environment round a namespace matching the hook's
	// namespace.labelSelector appears, with an object already in it
	lateNs bool
}

func c06menu() []c06tmpl {
	return []c06tmpl{
		{id: "onstart", order: 5, config: "configVersion: v1\nonStartup: 5\n"},
		{id: "start+kube", order: 5, config: "configVersion: v1\nonStartup: 5\nkubernetes:\n- name: kb\n  kind: ConfigMap\n  namespace: {nameSelector: {matchNames: [n1]}}\n",
			syncs: []string{"sync:kb"}, events: map[string]string{"kb": "sync:kb"}},
		{id: "group", config: "configVersion: v1\nkubernetes:\n- name: kg1\n  kind: ConfigMap\n  group: g\n  namespace: {nameSelector: {matchNames: [n1]}}\n- name: kg2\n  kind: ConfigMap\n  group: g\n  namespace: {nameSelector: {matchNames: [n2]}}\nschedule:\n- name: sg\n  crontab: \"* * * * *\"\n  group: g\n",
			syncs: []string{"group:g"}, events: map[string]string{"kg1": "group:g", "kg2": "group:g"}, scheds: []string{"sg"}},
		{id: "nosync", config: "configVersion: v1\nkubernetes:\n- name: kn\n  kind: ConfigMap\n  executeHookOnSynchronization: false\n  namespace: {nameSelector: {matchNames: [n1]}}\nschedule:\n- name: sn\n  crontab: \"* * * * *\"\n",
			events: map[string]string{"kn": ""}, scheds: []string{"sn"}, noSync: []string{"kn"}},
		{id: "v0", order: 3, config: `{"onStartup": 3, "onKubernetesEvent": [{"name": "k0", "kind": "ConfigMap", "event": ["update"], "namespaceSelector": {"matchNames": ["n1"]}}], "schedule": [{"name": "s0", "crontab": "* * * * *"}]}`,
			events: map[string]string{"k0": ""}, scheds: []string{"s0"}, noSync: []string{"k0"}},
		{id: "q2", config: "configVersion: v1\nkubernetes:\n- name: kq\n  kind: ConfigMap\n  queue: q2\n  namespace: {nameSelector: {matchNames: [n1]}}\nschedule:\n- name: sq\n  crontab: \"* * * * *\"\n  queue: q2\n",
			syncs: []string{"sync:kq"}, events: map[string]string{"kq": "sync:kq"}, scheds: []string{"sq"}},
	}
}

type c06item struct{ hook, what string }

type c06spec struct {
	Name  string
	Hooks []c06tmpl // hook i is named h<i+1>-<id>.sh
	FailJ int       // index into the expected start-up list of the execution that fails (-1: none)
	FailK int
	Names []string  // explicit hook paths (given in lexical order), else h<i>-<id>.sh
	// ListFail: the first LIST of ConfigMaps in this namespace is answered with an error (an
	// API server that is not ready yet): enabling the hook's kubernetes bindings fails once and
	// is retried; every binding must still get its Synchronization exactly once.
	ListFail string
}

func (s c06spec) hookName(i int) string {
	if len(s.Names) > i {
		return s.Names[i]
	}
	return fmt.Sprintf("h%d-%s.sh", i+1, s.Hooks[i].id)
}

func (s c06spec) expected() []c06item {
	var out []c06item
	type oh struct {
		order int
		name  string
	}
	var starts []oh
	for i, h := range s.Hooks {
		if h.order > 0 {
			starts = append(starts, oh{h.order, s.hookName(i)})
		}
	}
	sort.SliceStable(starts, func(i, j int) bool {
		if starts[i].order != starts[j].order {
			return starts[i].order < starts[j].order
		}
		return starts[i].name < starts[j].name
	})
	for _, st := range starts {
		out = append(out, c06item{st.name, "onStartup"})
	}
	for i, h := range s.Hooks { // names are already in lexical order
		for _, sy := range h.syncs {
			out = append(out, c06item{s.hookName(i), sy})
		}
	}
	return out
}

// classify says which start-up item a run is, or "".
func c06classify(spec c06spec, r *fxRun, groupSyncSeen map[string]bool) string {
	for _, c := range r.Contexts {
		if c["binding"] == "onStartup" {
			return "onStartup"
		}
	}
	for _, c := range r.Contexts {
		if c["type"] == "Synchronization" {
			return fmt.Sprintf("sync:%v", c["binding"])
		}
	}
	for _, c := range r.Contexts {
		if c["type"] == "Group" && strings.HasPrefix(fmt.Sprint(c["binding"]), "kg") && !groupSyncSeen[r.Hook] {
			return fmt.Sprintf("group:%v", c["groupName"])
		}
	}
	return ""
}

type c06obs struct {
	fx      *fixture
	Spec    c06spec
	Settled bool
	End     string
	Panics  []string
	Blocked []string
}

func c06body(spec c06spec, obs *c06obs) func(x *vrt.Exec) {
	return func(x *vrt.Exec) {
		var hooks []fxHook
		for i, h := range spec.Hooks {
			hooks = append(hooks, fxHook{Name: spec.hookName(i), Config: h.config})
		}
		fx := newFixture(hooks)
		obs.fx, obs.Spec = fx, spec
		defer fx.close()
		hub := &kubeeventsmanager.ZZHub{}
		kubeeventsmanager.ZZInstallHub(hub)
		defer kubeeventsmanager.ZZInstallHub(nil)
		fx.withCluster()
		ctx := context.Background()
		dyn := fx.op.KubeClient.Dynamic()
		for _, ns := range []string{"n1", "n2"} {
			if _, err := dyn.Resource(cmGVR).Namespace(ns).Create(ctx, cmObj(ns, "o", 0), metav1.CreateOptions{}); err != nil {
				panic(err)
			}
		}
		if spec.ListFail != "" {
			if fd, ok := dyn.(*fakedynamic.FakeDynamicClient); ok {
				injected := 0
				fd.PrependReactor("list", "configmaps", func(a k8stesting.Action) (bool, runtime.Object, error) {
					if a.GetNamespace() == spec.ListFail && injected == 0 {
						injected++
						return true, nil, fmt.Errorf("injected: the API server is not ready")
					}
					return false, nil, nil
				})
			} else {
				panic("c06: fake dynamic client expected")
			}
		}
		exp := spec.expected()
		groupSeen := map[string]bool{}
		failed := 0
		fx.Script = func(run *fxRun) fxOutcome {
			what := c06classify(spec, run, groupSeen)
			if spec.FailJ >= 0 && spec.FailJ < len(exp) && exp[spec.FailJ] == (c06item{run.Hook, what}) && failed < spec.FailK {
				failed++
				run.Failed = true
				return fxOutcome{Exit: 1}
			}
			if strings.HasPrefix(what, "group:") || c06hasGroup(run) {
				groupSeen[run.Hook] = true
			}
			return fxOutcome{}
		}
		var err error
		vrt.Atomic(func() { err = fx.assemble() })
		if err != nil {
			panic(err)
		}
		// the environment does not wait for the operator: a tick and a change in both namespaces
		// arrive after k1 start-up executions have finished (k1 enumerated, cost 0), and again later
		k1 := vrt.Choose(len(exp)+1, "env-after-k-startup-executions")
		finished := func() int {
			n := 0
			for _, r := range fx.Runs {
				if r.EndSeq > 0 {
					n++
				}
			}
			return n
		}
		envDone := false
		lateNs := false
		for _, h := range spec.Hooks {
			lateNs = lateNs || h.lateNs
		}
		round := func(i int) {
			schedulemanager.ZZRunJobs(fx.op.ScheduleManager)
			vrt.Yield("env-kube")
			if lateNs && i == 1 {
				o := cmObj("n3", "o", 0)
				if _, err := dyn.Resource(cmGVR).Namespace("n3").Create(ctx, o, metav1.CreateOptions{}); err != nil {
					panic(err)
				}
				nsObj := &corev1.Namespace{ObjectMeta: metav1.ObjectMeta{Name: "n3", Labels: map[string]string{"watch": "yes"}}}
				if _, err := fx.op.KubeClient.CoreV1().Namespaces().Create(ctx, nsObj, metav1.CreateOptions{}); err != nil {
					panic(err)
				}
				hub.NotifyNs("add", nsObj)
			}
			for _, ns := range []string{"n1", "n2"} {
				old, _ := dyn.Resource(cmGVR).Namespace(ns).Get(ctx, "o", metav1.GetOptions{})
				o := cmObj(ns, "o", i)
				if _, err := dyn.Resource(cmGVR).Namespace(ns).Update(ctx, o, metav1.UpdateOptions{}); err != nil {
					panic(err)
				}
				hub.Notify(cmGVR, "update", old, o)
			}
		}
		vrt.GoNamed("env", func() {
			vrt.Wait("env-round-1", func() bool { return finished() >= k1 })
			round(1)
			vrt.Yield("env-tick")
			round(2)
			envDone = true
		})
		fx.start()
		obs.Settled = vrt.WaitFor("startup-over", 60*time.Minute, func() bool {
			if !envDone || hub.Pending() || hub.Busy != 0 {
				return false
			}
			done := 0
			for _, r := range fx.Runs {
				if r.EndSeq > 0 && !r.Failed && c06classifyDone(spec, r) {
					done++
				}
			}
			for _, q := range []string{"main", "q2"} {
				if tq := fx.op.TaskQueues.GetByName(q); tq != nil && (!tq.IsEmpty() || !idle(fx, q)) {
					return false
				}
			}
			return done >= len(exp)
		})
		// a few more ticks once everything is enabled: schedules must work after start-up
		schedulemanager.ZZRunJobs(fx.op.ScheduleManager)
		vrt.WaitFor("tail", time.Minute, func() bool {
			for _, q := range []string{"main", "q2"} {
				if tq := fx.op.TaskQueues.GetByName(q); tq != nil && (!tq.IsEmpty() || !idle(fx, q)) {
					return false
				}
			}
			return true
		})
	}
}

// c06hasGroup: the execution carries a Group context (a start-up execution classified by its
// Synchronization context may also hold the group's part of the start-up).
func c06hasGroup(r *fxRun) bool {
	for _, c := range r.Contexts {
		if c["type"] == "Group" {
			return true
		}
	}
	return false
}

// c06queueOf reads the queue of a binding from the hook's configuration text ("main" if none).
func c06queueOf(config, binding string) string {
	in := false
	for _, ln := range strings.Split(config, "\n") {
		t := strings.TrimSpace(ln)
		if strings.HasPrefix(t, "- name: ") {
			in = strings.TrimPrefix(t, "- name: ") == binding
		} else if in && strings.HasPrefix(t, "queue: ") {
			return strings.Trim(strings.TrimPrefix(t, "queue: "), "\"")
		}
	}
	return "main"
}

func c06classifyDone(spec c06spec, r *fxRun) bool {
	for _, c := range r.Contexts {
		if c["binding"] == "onStartup" || c["type"] == "Synchronization" {
			return true
		}
		if c["type"] == "Group" && strings.HasPrefix(fmt.Sprint(c["binding"]), "kg") {
			return true
		}
	}
	return false
}

func c06check(obs *c06obs) (string, string) {
	spec := obs.Spec
	if len(obs.Panics) > 0 {
		return "C06b panic", strings.Join(obs.Panics, "\n")
	}
	if obs.End == "deadlock" {
		return "C06b deadlock", strings.Join(obs.Blocked, "; ")
	}
	fx := obs.fx
	if !obs.Settled {
		return "C06b startup-not-finished", fmt.Sprintf("end=%s runs: %s", obs.End, c03runs(fx))
	}
	exp := spec.expected()
	tmplOf := map[string]c06tmpl{}
	for i, h := range spec.Hooks {
		tmplOf[spec.hookName(i)] = h
	}
	next := 0
	groupSeen := map[string]bool{}
	doneItems := map[c06item]int{}
	for _, r := range fx.Runs {
		what := c06classify(spec, r, groupSeen)
		item := c06item{r.Hook, what}
		t := tmplOf[r.Hook]
		if what != "" {
			// a start-up execution: must be the next expected one (or a retry / failed attempt of it)
			if next >= len(exp) || exp[next] != item {
				wantS := "nothing more"
				if next < len(exp) {
					wantS = fmt.Sprintf("%v", exp[next])
				}
				kind := "synchronization-order"
				if what == "onStartup" || (next < len(exp) && exp[next].what == "onStartup") {
					kind = "onstartup-order"
				}
				return "C06b " + kind, fmt.Sprintf("start-up execution %v where %s was due; expected order %v; runs: %s", item, wantS, exp, c03runs(fx))
			}
			if what != "onStartup" && r.Queue != "main" {
				return "C06b synchronization-not-in-main", fmt.Sprintf("%v executed in queue %q", item, r.Queue)
			}
			if !r.Failed {
				doneItems[item]++
				if strings.HasPrefix(what, "group:") || c06hasGroup(r) {
					groupSeen[r.Hook] = true
				}
				next++
			}
			// contexts of other kinds must not ride along before their own prerequisites
		}
		// onStartup runs come before everything else
		if what != "onStartup" {
			for _, e := range exp[next:] {
				if e.what == "onStartup" {
					return "C06b execution-before-onstartup", fmt.Sprintf("%s executed (%s) while onStartup of %s had not succeeded yet; runs: %s", r.Hook, what, e.hook, c03runs(fx))
				}
			}
		}
		for _, c := range r.Contexts {
			b, _ := c["binding"].(string)
			ty, _ := c["type"].(string)
			// outside the start-up executions (which all run in main) a binding's contexts are
			// delivered in the binding's own queue: an execution in another queue is a start-up
			// execution delivered once more
			if wantQ := c06queueOf(t.config, b); what == "" && b != "" && r.Queue != wantQ {
				return "C06b startup-execution-repeated", fmt.Sprintf("hook %s: %s/%s of a binding of queue %q was executed in queue %q outside its start-up execution; runs: %s", r.Hook, b, ty, wantQ, r.Queue, c03runs(fx))
			}
			// never a Synchronization for switched-off / v0 bindings
			for _, ns := range t.noSync {
				if b == ns && ty == "Synchronization" {
					return "C06b synchronization-delivered-when-off", fmt.Sprintf("hook %s got a Synchronization for %s", r.Hook, b)
				}
			}
			// Events of a binding only after its Synchronization
			if pre, isK := t.events[b]; isK && (ty == "Event" || (ty == "Group" && what == "")) && pre != "" {
				if doneItems[c06item{r.Hook, pre}] == 0 {
					return "C06b event-before-synchronization", fmt.Sprintf("hook %s got %s/%s before %s succeeded; runs: %s", r.Hook, b, ty, pre, c03runs(fx))
				}
			}
			// Schedule tasks of a hook only after all its Synchronizations
			for _, sb := range t.scheds {
				if b == sb && what == "" {
					for _, sy := range t.syncs {
						if doneItems[c06item{r.Hook, sy}] == 0 {
							return "C06b schedule-before-synchronization", fmt.Sprintf("hook %s ran its schedule %s before %s succeeded; runs: %s", r.Hook, sb, sy, c03runs(fx))
						}
					}
				}
			}
		}
	}
	for _, e := range exp {
		if doneItems[e] != 1 {
			return "C06b startup-execution-count", fmt.Sprintf("%v succeeded %d times, want exactly once; runs: %s", e, doneItems[e], c03runs(fx))
		}
	}
	return "", ""
}

// c06extra: hook shapes that are not multiplied with the whole menu. A group whose first
// binding has executeHookOnSynchronization: false - its Synchronization task is skipped, the
// Synchronization of the rest of the group must still be executed - in both binding orders.
func c06extra() []c06tmpl {
	return []c06tmpl{
		{id: "group-nosync-first", config: "configVersion: v1\nkubernetes:\n- name: kgn\n  kind: ConfigMap\n  group: g2\n  executeHookOnSynchronization: false\n  namespace: {nameSelector: {matchNames: [n1]}}\n- name: kg3\n  kind: ConfigMap\n  group: g2\n  namespace: {nameSelector: {matchNames: [n2]}}\nschedule:\n- name: sg2\n  crontab: \"* * * * *\"\n",
			syncs: []string{"group:g2"}, events: map[string]string{"kgn": "", "kg3": "group:g2"}, scheds: []string{"sg2"}},
		{id: "two-kube", config: "configVersion: v1\nkubernetes:\n- name: kb1\n  kind: ConfigMap\n  namespace: {nameSelector: {matchNames: [n1]}}\n- name: kb2\n  kind: ConfigMap\n  namespace: {nameSelector: {matchNames: [n2]}}\n",
			syncs: []string{"sync:kb1", "sync:kb2"}, events: map[string]string{"kb1": "sync:kb1", "kb2": "sync:kb2"}},
		{id: "two-kube-q2", config: "configVersion: v1\nkubernetes:\n- name: kb1\n  kind: ConfigMap\n  namespace: {nameSelector: {matchNames: [n1]}}\n- name: kbq\n  kind: ConfigMap\n  queue: q2\n  namespace: {nameSelector: {matchNames: [n2]}}\n",
			syncs: []string{"sync:kb1", "sync:kbq"}, events: map[string]string{"kb1": "sync:kb1", "kbq": "sync:kbq"}},
		// a group whose bindings are not declared next to each other: the group's start-up is still
		// one execution (the grouped head absorbs the Synchronization tasks behind it)
		{id: "group-split", config: "configVersion: v1\nkubernetes:\n- name: kg5\n  kind: ConfigMap\n  group: g4\n  namespace: {nameSelector: {matchNames: [n1]}}\n- name: kb5\n  kind: ConfigMap\n  namespace: {nameSelector: {matchNames: [n2]}}\n- name: kg6\n  kind: ConfigMap\n  group: g4\n  namespace: {nameSelector: {matchNames: [n1]}}\n",
			syncs: []string{"sync:kb5"}, events: map[string]string{"kg5": "sync:kb5", "kb5": "sync:kb5", "kg6": "sync:kb5"}},
		// a namespace.labelSelector binding in a named queue; a matching namespace that already holds
		// an object appears while start-up is still under way
		{id: "nslabel-q2", config: "configVersion: v1\nkubernetes:\n- name: kb7\n  kind: ConfigMap\n  namespace: {nameSelector: {matchNames: [n1]}}\n- name: kl7\n  kind: ConfigMap\n  queue: q2\n  namespace: {labelSelector: {matchLabels: {watch: \"yes\"}}}\n",
			syncs: []string{"sync:kb7", "sync:kl7"}, events: map[string]string{"kb7": "sync:kb7", "kl7": "sync:kl7"}, lateNs: true},
		// a group whose bindings use a named queue: the group's start-up is still one execution in main
		{id: "group-q2", config: "configVersion: v1\nkubernetes:\n- name: kg8\n  kind: ConfigMap\n  group: g5\n  queue: q2\n  namespace: {nameSelector: {matchNames: [n1]}}\n- name: kg9\n  kind: ConfigMap\n  group: g5\n  queue: q2\n  namespace: {nameSelector: {matchNames: [n2]}}\n",
			syncs: []string{"group:g5"}, events: map[string]string{"kg8": "group:g5", "kg9": "group:g5"}},
		{id: "group-nosync-last", config: "configVersion: v1\nkubernetes:\n- name: kg4\n  kind: ConfigMap\n  group: g3\n  namespace: {nameSelector: {matchNames: [n1]}}\n- name: kgm\n  kind: ConfigMap\n  group: g3\n  executeHookOnSynchronization: false\n  namespace: {nameSelector: {matchNames: [n2]}}\n",
			syncs: []string{"group:g3"}, events: map[string]string{"kg4": "group:g3", "kgm": ""}},
	}
}

func c06specs() []c06spec {
	menu := c06menu()
	var sets [][]c06tmpl
	for i := range menu {
		sets = append(sets, []c06tmpl{menu[i]})
	}
	for i := range menu {
		for j := range menu {
			if i != j {
				sets = append(sets, []c06tmpl{menu[i], menu[j]})
			}
		}
	}
	// two hooks with byte-identical configurations (a hook copied under another name): they are
	// still two hooks, each with its own start-up
	for i := range menu {
		sets = append(sets, []c06tmpl{menu[i], menu[i]})
	}
	for _, x := range c06extra() {
		sets = append(sets, []c06tmpl{x})
		if vres.Thorough() {
			sets = append(sets, []c06tmpl{menu[1], x})
		}
	}
	if vres.Thorough() {
		for i := range menu {
			for j := range menu {
				for k := range menu {
					if i != j && j != k && i != k {
						sets = append(sets, []c06tmpl{menu[i], menu[j], menu[k]})
					}
				}
			}
		}
	} else {
		sets = append(sets, []c06tmpl{menu[1], menu[4], menu[0]})
	}
	var out []c06spec
	// enabling the kubernetes bindings fails once half-way (the second binding's LIST) and is retried
	for _, x := range c06extra() {
		if x.id == "two-kube" {
			out = append(out, c06spec{Name: "two-kube/list-fails-once", Hooks: []c06tmpl{x}, FailJ: -1, ListFail: "n2"})
			out = append(out, c06spec{Name: "start+kube+two-kube/list-fails-once", Hooks: []c06tmpl{menu[1], x}, FailJ: -1, ListFail: "n2"})
		}
	}
	out = append(out, c06spec{Name: "group/list-fails-once", Hooks: []c06tmpl{menu[2]}, FailJ: -1, ListFail: "n2"})
	// a hook copied under another name, with a binding in a named queue: while the copy's first
	// Synchronization fails and is retried, changes arrive; every start-up execution of it fails once
	for _, x := range c06extra() {
		if x.id == "two-kube-q2" {
			for j := 0; j < 4; j++ {
				out = append(out, c06spec{Name: fmt.Sprintf("two-kube-q2+two-kube-q2/fail#%d x1", j), Hooks: []c06tmpl{x, x}, FailJ: j, FailK: 1})
			}
		}
	}
	// paths whose directory-walk order differs from their lexical order ('.' sorts before '/')
	out = append(out, c06spec{Name: "paths:common.sh,common/x.sh", Hooks: []c06tmpl{menu[1], menu[1]}, FailJ: -1, Names: []string{"common.sh", "common/x.sh"}})
	out = append(out, c06spec{Name: "paths:10-net.d/b,10-net/a", Hooks: []c06tmpl{menu[1], menu[2]}, FailJ: -1, Names: []string{"10-net.d/b", "10-net/a"}})
	for _, set := range sets {
		var ids []string
		for _, h := range set {
			ids = append(ids, h.id)
		}
		base := c06spec{Name: strings.Join(ids, "+"), Hooks: set, FailJ: -1}
		out = append(out, base)
		n := len(base.expected())
		for j := 0; j < n; j++ {
			if !vres.Thorough() && j != 0 && j != n-1 {
				continue // quick: the first and the last start-up execution fail; thorough: each of them
			}
			if !vres.Thorough() && len(set) == 2 && (len(out)%2 == 1) && j != 0 {
				continue
			}
			for k := 1; k <= vres.Pick(1, 2); k++ {
				s := base
				s.FailJ, s.FailK = j, k
				s.Name = fmt.Sprintf("%s/fail#%d x%d", base.Name, j, k)
				out = append(out, s)
			}
		}
	}
	return out
}

func TestVerifC06b(t *testing.T) {
	r := vres.New("c06b")
	defer r.Finish()
	bound := vres.Pick(1, 2)
	specs := c06specs()
	r.Bound("deviation_bound", bound)
	r.Bound("hook_sets_x_failures", len(specs))
	shard, shards := vres.Shard()
	for i, spec := range specs {
		if !r.Replaying() && i%shards != shard {
			continue
		}
		spec := spec
		var obs *c06obs
		body := func(x *vrt.Exec) {
			obs = &c06obs{}
			c06body(spec, obs)(x)
		}
		ex := &vrt.Explorer{Opts: vrt.Options{Bound: bound, MaxSteps: 200000, DelayBound: true}, Deadline: r.Deadline()}
		ex.Check = func(x *vrt.Exec) {
			obs.End, obs.Panics, obs.Blocked = x.End, x.Panics, x.Blocked
			key := fmt.Sprintf("%s|%v", spec.Name, x.Choices)
			r.Eval(1)
			r.Transition(int64(x.Steps))
			sig, what := c06check(obs)
			if sig != "" {
				r.Violation(sig, key, what, nil)
				r.Outcome("V:"+sig, true)
				return
			}
			oc := spec.Name + "|" + c03runs(obs.fx)
			r.State(oc)
			r.Outcome(oc, spec.FailJ >= 0 || x.Devs() > 0)
			if spec.FailJ >= 0 || x.Devs() > 0 {
				r.Sample(map[string]any{"hooks_and_failure": spec.Name, "choices": fmt.Sprint(x.Choices), "execution_log": c03runs(obs.fx)})
			}
		}
		if r.Replaying() {
			parts := strings.SplitN(r.OnlyCase(), "|", 2)
			if len(parts) != 2 || parts[0] != spec.Name {
				continue
			}
			var choices []int
			for _, f := range strings.Fields(strings.Trim(parts[1], "[]")) {
				var v int
				fmt.Sscan(f, &v)
				choices = append(choices, v)
			}
			opts := ex.Opts
			ex.Check(vrt.Run(&opts, choices, nil, body))
			continue
		}
		ex.Explore(body)
		r.Count("executions", ex.Stats.Executions)
		if ex.Stats.Capped != "" {
			r.Cap(spec.Name + ":" + ex.Stats.Capped)
		}
		if r.Expired() {
			return
		}
	}
}
