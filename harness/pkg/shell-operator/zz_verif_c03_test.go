package shell_operator

// C03 — a queue runs one task at a time, head first; queues do not block each other.
// The real operator (Start(): queues, events handler, hook/bindings controllers, schedule
// manager, kube events manager) runs under the controlled scheduler with hook processes and
// informers behind seams. Two hooks with bindings in `main` and in `q2`; an environment
// thread produces kubernetes events and schedule ticks; variants stall one queue with a hook
// that never returns or that fails forever. All interleavings up to the deviation bound.

import (
	"context"
	"fmt"
	"sort"
	"strings"
	"testing"
	"time"

	metav1 "k8s.io/apimachinery/pkg/apis/meta/v1"

	kubeeventsmanager "github.com/flant/shell-operator/pkg/kube_events_manager"
	schedulemanager "github.com/flant/shell-operator/pkg/schedule_manager"
	"github.com/flant/shell-operator/pkg/zzverif/vres"
	"github.com/flant/shell-operator/pkg/zzverif/vrt"
)

const c03hookA = `configVersion: v1
kubernetes:
- name: kmain
  kind: ConfigMap
  namespace: {nameSelector: {matchNames: [n1]}}
schedule:
- name: sq2
  crontab: "* * * * *"
  queue: q2
`

const c03hookB = `configVersion: v1
kubernetes:
- name: kq2
  kind: ConfigMap
  queue: q2
  namespace: {nameSelector: {matchNames: [n2]}}
schedule:
- name: smain
  crontab: "* * * * *"
`

// expected queue of every binding
var c03queueOf = map[string]string{"kmain": "main", "sq2": "q2", "kq2": "q2", "smain": "main"}

type c03obs struct {
	fx       *fixture
	Settled  bool
	End      string
	Panics   []string
	Blocked  []string
	Expected map[string]int // hook -> executions expected at least
	Stall    string
}

func c03body(stall string, obs *c03obs) func(x *vrt.Exec) {
	return func(x *vrt.Exec) {
		fx := newFixture([]fxHook{{Name: "a.sh", Config: c03hookA}, {Name: "b.sh", Config: c03hookB}})
		obs.fx = fx
		obs.Stall = stall
		defer fx.close()
		hub := &kubeeventsmanager.ZZHub{}
		kubeeventsmanager.ZZInstallHub(hub)
		defer kubeeventsmanager.ZZInstallHub(nil)
		fx.withCluster()
		ctx := context.Background()
		dyn := fx.op.KubeClient.Dynamic()
		for _, ns := range []string{"n1", "n2"} {
			if _, err := dyn.Resource(cmGVR).Namespace(ns).Create(ctx, cmObj(ns, "o", 0), metav1.CreateOptions{}); err != nil {
				panic(err)
			}
		}
		never := func() bool { return false }
		startupDone := false
		fx.Script = func(run *fxRun) fxOutcome {
			if !startupDone {
				return fxOutcome{}
			}
			switch stall {
			case "q2-blocked":
				if run.Queue == "q2" {
					return fxOutcome{Block: never}
				}
			case "main-failing":
				if run.Queue == "main" {
					return fxOutcome{Exit: 1}
				}
			}
			return fxOutcome{}
		}
		var err error
		vrt.Exploring(false) // start-up is explored by C06; here it runs on the default schedule
		vrt.Atomic(func() { err = fx.assemble() })
		if err != nil {
			panic(err)
		}
		fx.start()
		// start-up: both hooks enabled (Synchronization runs done, schedules registered)
		ok := vrt.WaitFor("startup", 10*time.Minute, func() bool {
			return fx.op.TaskQueues.GetMain() != nil && fx.op.TaskQueues.GetMain().IsEmpty() && len(fx.Runs) >= 2 && schedulemanager.ZZJobs(fx.op.ScheduleManager) >= 1 && !hub.Pending() && hub.Busy == 0
		})
		if !ok {
			obs.Settled = false
			return
		}
		startupDone = true
		vrt.Exploring(true)
		base := len(fx.Runs)
		// environment: ticks and kubernetes changes
		envDone := false
		vrt.GoNamed("env", func() {
			for i := 1; i <= 2; i++ {
				vrt.Yield("env-tick")
				schedulemanager.ZZRunJobs(fx.op.ScheduleManager)
				vrt.Yield("env-kube")
				for _, ns := range []string{"n1", "n2"} {
					old, _ := dyn.Resource(cmGVR).Namespace(ns).Get(ctx, "o", metav1.GetOptions{})
					o := cmObj(ns, "o", i)
					if _, err := dyn.Resource(cmGVR).Namespace(ns).Update(ctx, o, metav1.UpdateOptions{}); err != nil {
						panic(err)
					}
					hub.Notify(cmGVR, "update", old, o)
				}
			}
			envDone = true
		})
		// what must have been executed for the run to count as settled
		seen := func(binding string, minCtx int) bool {
			n := 0
			for _, r := range fx.Runs[base:] {
				if r.EndSeq == 0 {
					continue
				}
				for _, c := range r.Contexts {
					if c["binding"] == binding {
						n++
					}
				}
			}
			return n >= minCtx
		}
		settled := func() bool {
			if !envDone || hub.Pending() || hub.Busy != 0 {
				return false
			}
			switch stall {
			case "q2-blocked":
				// main's bindings must get through although q2 never finishes its first task
				return seen("kmain", 1) && seen("smain", 1) && fx.op.TaskQueues.GetMain().IsEmpty() && idle(fx, "main")
			case "main-failing":
				return seen("kq2", 1) && seen("sq2", 1) && fx.op.TaskQueues.GetByName("q2").IsEmpty() && idle(fx, "q2")
			default:
				return seen("kmain", 1) && seen("smain", 1) && seen("kq2", 1) && seen("sq2", 1) &&
					fx.op.TaskQueues.GetMain().IsEmpty() && fx.op.TaskQueues.GetByName("q2").IsEmpty() && idle(fx, "main") && idle(fx, "q2")
			}
		}
		obs.Settled = vrt.WaitFor("settled", 30*time.Minute, settled)
		fx.op.Stop()
	}
}

// idle: no handler of that queue is between begin and end.
func idle(fx *fixture, q string) bool {
	open := 0
	for _, e := range fx.Events {
		if e.Queue != q {
			continue
		}
		if e.Kind == "begin" {
			open++
		} else {
			open--
		}
	}
	return open == 0
}

func c03check(obs *c03obs) (string, string) {
	if len(obs.Panics) > 0 {
		return "C03 panic", strings.Join(obs.Panics, "\n")
	}
	if obs.End == "deadlock" {
		return "C03 deadlock stall=" + obs.Stall, "no thread can move: " + strings.Join(obs.Blocked, "; ")
	}
	fx := obs.fx
	// (i) no overlap inside a queue, (ii) head first
	open := map[string]string{}
	for _, e := range fx.Events {
		if e.Queue == "" {
			continue
		}
		switch e.Kind {
		case "begin":
			if cur, busy := open[e.Queue]; busy {
				return "C03 overlap", fmt.Sprintf("queue %s starts %s while %s is still running", e.Queue, e.Desc, cur)
			}
			open[e.Queue] = e.Desc
			if e.TaskID == "" {
				return "C03 nil-task", "queue " + e.Queue + " handed a nil task to the handler"
			}
			if e.Head != e.TaskID {
				return "C03 not-head", fmt.Sprintf("queue %s executes %s which is not its head", e.Queue, e.Desc)
			}
		case "end":
			delete(open, e.Queue)
		}
	}
	// (iii) placement and per-object order
	last := map[string]int{}
	for _, r := range fx.Runs {
		for _, c := range r.Contexts {
			b, _ := c["binding"].(string)
			want, known := c03queueOf[b]
			if !known {
				continue
			}
			if r.Queue != want && !(c["type"] == "Synchronization" && r.Queue == "main") {
				return "C03 wrong-queue", fmt.Sprintf("context of binding %s executed in queue %q, want %q", b, r.Queue, want)
			}
			if c["type"] == "Event" {
				if obj, ok := c["object"].(map[string]any); ok {
					data, _ := obj["data"].(map[string]any)
					var v int
					fmt.Sscan(fmt.Sprint(data["v"]), &v)
					if v < last[b] {
						return "C03 event-order", fmt.Sprintf("binding %s got version %d after %d", b, v, last[b])
					}
					last[b] = v
				}
			}
		}
	}
	// (iv) progress of the queue that is not stalled
	if !obs.Settled {
		return "C03 no-progress stall=" + obs.Stall, fmt.Sprintf("the expected executions did not all happen before the horizon (end=%s); runs: %s", obs.End, c03runs(fx))
	}
	return "", ""
}

func c03runs(fx *fixture) string {
	var parts []string
	for _, r := range fx.Runs {
		var bs []string
		for _, c := range r.Contexts {
			bs = append(bs, fmt.Sprintf("%v/%v", c["binding"], c["type"]))
		}
		parts = append(parts, fmt.Sprintf("%s@%s[%s]", r.Hook, r.Queue, strings.Join(bs, ",")))
	}
	return strings.Join(parts, " ")
}

func opFilter(site string) bool {
	for _, p := range []string{"task_queue.go:", "queue_set.go:", "manager_events_handler.go:", "operator.go:", "schedule_manager.go:", "kube_events_manager.go:", "resource_informer.go:", "monitor.go:", "zz_verif_"} {
		if strings.HasPrefix(site, p) {
			return true
		}
	}
	return false
}

func TestVerifC03(t *testing.T) {
	r := vres.New("c03")
	defer r.Finish()
	bound := vres.Pick(2, 3)
	r.Bound("deviation_bound", bound)
	shard, shards := vres.Shard()
	for _, stall := range []string{"none", "q2-blocked", "main-failing"} {
		stall := stall
		var obs *c03obs
		body := func(x *vrt.Exec) {
			obs = &c03obs{}
			c03body(stall, obs)(x)
		}
		ex := &vrt.Explorer{Opts: vrt.Options{Bound: bound, MaxSteps: 60000, DelayBound: true}, Shard: shard, Shards: shards, Deadline: r.Deadline()}
		outcomes := map[string]bool{}
		ex.Check = func(x *vrt.Exec) {
			obs.End, obs.Panics, obs.Blocked = x.End, x.Panics, x.Blocked
			key := fmt.Sprintf("%s|%v", stall, x.Choices)
			sig, what := c03check(obs)
			r.Eval(1)
			r.Transition(int64(x.Steps))
			if sig != "" {
				r.Violation(sig, key, what, nil)
				r.Outcome("V:"+sig, true)
				return
			}
			oc := stall + "|" + c03runs(obs.fx)
			outcomes[oc] = true
			r.State(oc)
			r.Outcome(oc, x.Devs() > 0)
			if x.Devs() > 0 {
				r.Sample(map[string]any{"stall": stall, "choices": fmt.Sprint(x.Choices), "executions": c03runs(obs.fx)})
			}
		}
		if r.Replaying() {
			parts := strings.SplitN(r.OnlyCase(), "|", 2)
			if len(parts) != 2 || parts[0] != stall {
				continue
			}
			var choices []int
			for _, f := range strings.Fields(strings.Trim(parts[1], "[]")) {
				var c int
				fmt.Sscan(f, &c)
				choices = append(choices, c)
			}
			opts := ex.Opts
			opts.RecordTrace = true
			x := vrt.Run(&opts, choices, nil, body)
			ex.Check(x)
			r.Note("replayed stall=%s end=%s runs=%s", stall, x.End, c03runs(obs.fx))
			continue
		}
		ex.Explore(body)
		r.Count("executions:stall="+stall, ex.Stats.Executions)
		r.Count("max_choice_points:stall="+stall, int64(ex.Stats.MaxPoints))
		for d, n := range ex.Stats.ByDevs {
			r.Count(fmt.Sprintf("executions_with_%d_deviations", d), n)
		}
		if ex.Stats.Capped != "" {
			r.Cap("stall=" + stall + ":" + ex.Stats.Capped)
		}
		if len(outcomes) <= 1 && ex.Stats.Executions > 20 {
			r.Note("vacuous scenario stall=%s (one outcome from %d executions)", stall, ex.Stats.Executions)
		}
	}
	_ = sort.Strings
}
