package shell_operator

// C04 — failed runs are retried until success and block the queue unless allowFailure.
// The assembled operator runs under the scheduler with the virtual clock. Enumerated: the kind
// of task that fails (onStartup, Synchronization, Event, Schedule, a combined Schedule+Event
// task of one hook), the allowFailure values of the bindings involved, the number k of
// consecutive failures before success and the kind of failure (non-zero exit, malformed
// metrics, malformed patch, patch that cannot be applied). Quick: the default schedule of
// every such fault sequence; thorough: additionally all schedules within the delay bound.

import (
	"context"
	"fmt"
	"strings"
	"testing"
	"time"

	metav1 "k8s.io/apimachinery/pkg/apis/meta/v1"

	kubeeventsmanager "github.com/flant/shell-operator/pkg/kube_events_manager"
	schedulemanager "github.com/flant/shell-operator/pkg/schedule_manager"
	"github.com/flant/shell-operator/pkg/task/queue"
	"github.com/flant/shell-operator/pkg/zzverif/vres"
	"github.com/flant/shell-operator/pkg/zzverif/vrt"
)

type c04case struct {
	Target string // onStartup Synchronization Event Schedule Combined Combined3 (tick, event, tick: three tasks in one run)
	K      int
	Fail   string // exit bad-metrics bad-patch unappliable-patch
	AFk    bool   // allowFailure of the kubernetes binding kb
	AFs    bool   // allowFailure of the schedule binding s1
	Twin   bool   // a second schedule binding with the SAME name, another crontab and allowFailure true, declared first
}

func (c c04case) String() string {
	s := fmt.Sprintf("%s/k=%d/%s/AFk=%v/AFs=%v", c.Target, c.K, c.Fail, c.AFk, c.AFs)
	if c.Twin {
		s += "/same-named-lax-twin"
	}
	return s
}

func c04hookA(c c04case) string {
	q := ""
	if c.Target == "Synchronization" {
		// Events of kb go to a queue of their own: if they were unlocked by a failed
		// Synchronization run they would execute at once instead of queueing behind it
		q = "\n  queue: q2"
	}
	twin := ""
	if c.Twin {
		// binding names need not be unique: every binding keeps its own allowFailure
		twin = "\n- name: s1\n  crontab: \"*/5 * * * *\"\n  allowFailure: true"
	}
	return fmt.Sprintf(`configVersion: v1
onStartup: 1
kubernetes:
- name: kb
  kind: ConfigMap
  namespace: {nameSelector: {matchNames: [n1]}}`+q+`
  allowFailure: %v
schedule:`+twin+`
- name: s1
  crontab: "* * * * *"
  allowFailure: %v
`, c.AFk, c.AFs)
}

const c04hookB = `configVersion: v1
kubernetes:
- name: kb2
  kind: ConfigMap
  namespace: {nameSelector: {matchNames: [n2]}}
`

func c04failOutcome(kind string) fxOutcome {
	switch kind {
	case "exit":
		return fxOutcome{Exit: 1}
	case "bad-metrics":
		return fxOutcome{Metrics: `{"name":"m","action":"bogus","value":1}` + "\n"}
	case "bad-patch":
		return fxOutcome{Patch: `{"operation":"NoSuchOperation","kind":"ConfigMap","name":"x"}` + "\n"}
	case "bad-admission-response":
		// a hook that serves admission requests as well may leave a response file behind on any run
		return fxOutcome{Admission: `{"allowed": tr`}
	case "bad-conversion-response":
		return fxOutcome{Conversion: `{"convertedObj`}
	case "unappliable-patch":
		return fxOutcome{Patch: `{"operation":"JSONPatch","kind":"ConfigMap","namespace":"n1","name":"does-not-exist","jsonPatch":[{"op":"add","path":"/data/x","value":"1"}]}` + "\n"}
	}
	panic("unknown failure kind")
}

// ctxKey identifies a binding context the way a hook can tell them apart.
func ctxKey(c map[string]any) string {
	k := fmt.Sprintf("%v/%v", c["binding"], c["type"])
	if obj, ok := c["object"].(map[string]any); ok {
		if data, ok := obj["data"].(map[string]any); ok {
			k += fmt.Sprintf("/v%v", data["v"])
		}
	}
	if we, ok := c["watchEvent"]; ok {
		k += fmt.Sprintf("/%v", we)
	}
	return k
}

func hasTarget(run *fxRun, target string) bool {
	for _, c := range run.Contexts {
		b, _ := c["binding"].(string)
		ty, _ := c["type"].(string)
		switch target {
		case "onStartup":
			if b == "onStartup" {
				return true
			}
		case "Synchronization":
			if b == "kb" && ty == "Synchronization" {
				return true
			}
		case "Event":
			if b == "kb" && ty == "Event" {
				return true
			}
		case "Schedule", "Combined", "Combined3":
			if b == "s1" {
				return true
			}
		}
	}
	return false
}

type c04obs struct {
	fx      *fixture
	Case    c04case
	Settled bool
	End     string
	Panics  []string
	Blocked []string
}

func c04body(c c04case, obs *c04obs) func(x *vrt.Exec) {
	return func(x *vrt.Exec) {
		fx := newFixture([]fxHook{{Name: "a.sh", Config: c04hookA(c)}, {Name: "b.sh", Config: c04hookB}})
		obs.fx, obs.Case = fx, c
		defer fx.close()
		hub := &kubeeventsmanager.ZZHub{}
		kubeeventsmanager.ZZInstallHub(hub)
		defer kubeeventsmanager.ZZInstallHub(nil)
		fx.withCluster()
		ctx := context.Background()
		dyn := fx.op.KubeClient.Dynamic()
		for _, ns := range []string{"n1", "n2"} {
			if _, err := dyn.Resource(cmGVR).Namespace(ns).Create(ctx, cmObj(ns, "o", 0), metav1.CreateOptions{}); err != nil {
				panic(err)
			}
		}
		failures := 0
		fx.Script = func(run *fxRun) fxOutcome {
			if run.Hook == "b.sh" {
				for _, cc := range run.Contexts {
					if ctxKey(cc) == "kb2/Event/v1/Modified" {
						return fxOutcome{Duration: 10 * time.Second} // the blocker at the head of main
					}
				}
				return fxOutcome{}
			}
			if hasTarget(run, c.Target) && failures < c.K {
				failures++
				run.Failed = true
				return c04failOutcome(c.Fail)
			}
			return fxOutcome{}
		}
		vrt.Exploring(false)
		var err error
		vrt.Atomic(func() { err = fx.assemble() })
		if err != nil {
			panic(err)
		}
		fx.start()
		mutate := func(ns string, ver int) {
			old, _ := dyn.Resource(cmGVR).Namespace(ns).Get(ctx, "o", metav1.GetOptions{})
			o := cmObj(ns, "o", ver)
			if _, err := dyn.Resource(cmGVR).Namespace(ns).Update(ctx, o, metav1.UpdateOptions{}); err != nil {
				panic(err)
			}
			hub.Notify(cmGVR, "update", old, o)
		}
		startupTarget := c.Target == "onStartup" || c.Target == "Synchronization"
		if c.Target == "Synchronization" {
			// a change while the Synchronization run is failing: its Event must wait for the success
			vrt.GoNamed("env-early", func() {
				vrt.WaitFor("first-sync-attempt", 10*time.Minute, func() bool {
					for _, r := range fx.Runs {
						if hasTarget(r, "Synchronization") && r.EndSeq > 0 {
							return true
						}
					}
					return false
				})
				mutate("n1", 1)
			})
		}
		ok := vrt.WaitFor("startup", 30*time.Minute, func() bool {
			return fx.op.TaskQueues.GetMain() != nil && fx.op.TaskQueues.GetMain().IsEmpty() && idle(fx, "main") && len(fx.Runs) >= 3 && schedulemanager.ZZJobs(fx.op.ScheduleManager) >= 1 && !hub.Pending() && hub.Busy == 0
		})
		if !ok {
			return
		}
		if startupTarget {
			obs.Settled = true
			return
		}
		vrt.Exploring(true)
		envDone := false
		vrt.GoNamed("env", func() {
			mutate("n2", 1) // blocker task for b.sh, runs 10 s
			vrt.WaitFor("blocker-running", 10*time.Minute, func() bool {
				for _, r := range fx.Runs {
					if r.Hook == "b.sh" && r.EndSeq == 0 {
						return true
					}
				}
				return false
			})
			if c.Target == "Schedule" || c.Target == "Combined" || c.Target == "Combined3" {
				schedulemanager.ZZRunJobs(fx.op.ScheduleManager)
			}
			if c.Target == "Event" || c.Target == "Combined" || c.Target == "Combined3" {
				mutate("n1", 1)
			}
			if c.Target == "Combined3" {
				// a second tick behind the event: the binding that does not allow failure may sit in the
				// middle of the combined run
				vrt.WaitFor("event-queued", 10*time.Minute, func() bool { return !hub.Pending() && hub.Busy == 0 })
				schedulemanager.ZZRunJobs(fx.op.ScheduleManager)
			}
			mutate("n2", 2) // the later task of the queue
			if c.K > 0 {
				// one more event arrives while the queue sits in its back-off delay
				vrt.WaitFor("first-failure", 20*time.Minute, func() bool {
					for _, r := range fx.Runs {
						if r.Failed && r.EndSeq > 0 {
							return true
						}
					}
					return false
				})
				mutate("n2", 3)
			}
			envDone = true
		})
		obs.Settled = vrt.WaitFor("settled", 60*time.Minute, func() bool {
			if !envDone || hub.Pending() || hub.Busy != 0 || !fx.op.TaskQueues.GetMain().IsEmpty() || !idle(fx, "main") {
				return false
			}
			lastWanted := "kb2/Event/v2/Modified"
			if c.K > 0 {
				lastWanted = "kb2/Event/v3/Modified"
			}
			for _, r := range fx.Runs {
				for _, cc := range r.Contexts {
					if ctxKey(cc) == lastWanted && r.EndSeq > 0 {
						return true
					}
				}
			}
			return false
		})
	}
}

func c04check(obs *c04obs) (string, string) {
	c := obs.Case
	if len(obs.Panics) > 0 {
		return "C04 panic", strings.Join(obs.Panics, "\n")
	}
	if obs.End == "deadlock" {
		return "C04 deadlock", strings.Join(obs.Blocked, "; ")
	}
	fx := obs.fx
	if !obs.Settled {
		return "C04 not-settled target=" + c.Target, fmt.Sprintf("the queue did not get through its tasks before the horizon (end=%s): %s", obs.End, c03runs(fx))
	}
	// which bindings are involved and whether the failure may be dropped
	allow := map[string]bool{"kb": c.AFk, "s1": c.AFs, "onStartup": false}
	var attempts []*fxRun
	for _, r := range fx.Runs {
		if r.Hook == "a.sh" && hasTarget(r, c.Target) {
			attempts = append(attempts, r)
		}
	}
	if len(attempts) == 0 {
		return "C04 target-never-ran target=" + c.Target, c03runs(fx)
	}
	mayDrop := true
	for _, cc := range attempts[0].Contexts {
		b, _ := cc["binding"].(string)
		if !allow[b] {
			mayDrop = false
		}
	}
	// contexts of failed attempts whose binding does not allow failure must reappear in a successful run
	succeeded := map[string]bool{}
	for _, r := range fx.Runs {
		if r.Hook == "a.sh" && !c04failed(r, c) {
			for _, cc := range r.Contexts {
				succeeded[ctxKey(cc)] = true
			}
		}
	}
	for i, r := range attempts {
		if !c04failed(r, c) {
			continue
		}
		for _, cc := range r.Contexts {
			b, _ := cc["binding"].(string)
			if !allow[b] && !succeeded[ctxKey(cc)] {
				return "C04 context-discarded-after-failure target=" + c.Target, fmt.Sprintf("attempt %d failed with context %s of binding %s (allowFailure=false) and that context never reached a successful run; runs: %s", i, ctxKey(cc), b, c03runs(fx))
			}
		}
	}
	if c.K == 0 {
		if len(attempts) != 1 {
			return "C04 extra-attempts", fmt.Sprintf("%d executions of a task that succeeded at once", len(attempts))
		}
		return "", ""
	}
	if mayDrop {
		if len(attempts) != 1 {
			return "C04 retried-although-allowed target=" + c.Target, fmt.Sprintf("%d attempts although every binding involved allows failure", len(attempts))
		}
		return "", ""
	}
	if len(attempts) != c.K+1 {
		return "C04 attempts target=" + c.Target, fmt.Sprintf("%d attempts, want %d failures and one success; runs: %s", len(attempts), c.K, c03runs(fx))
	}
	for i := 1; i < len(attempts); i++ {
		prev, cur := attempts[i-1], attempts[i]
		// same contexts, possibly more, never fewer
		have := map[string]int{}
		for _, cc := range cur.Contexts {
			have[ctxKey(cc)]++
		}
		for _, cc := range prev.Contexts {
			if have[ctxKey(cc)] == 0 {
				return "C04 retry-lost-context target=" + c.Target, fmt.Sprintf("attempt %d lacks context %s that attempt %d had", i, ctxKey(cc), i-1)
			}
			have[ctxKey(cc)]--
		}
		if gap := cur.StartVT - prev.EndVT; gap < queue.DefaultInitialDelayOnFailedTask {
			return "C04 retry-too-early target=" + c.Target, fmt.Sprintf("attempt %d started %s after the failure, the initial delay is %s", i, gap, queue.DefaultInitialDelayOnFailedTask)
		}
		// nothing else of that queue in between
		for _, r := range fx.Runs {
			if r.Queue == prev.Queue && r.StartSeq > prev.EndSeq && r.StartSeq < cur.StartSeq {
				return "C04 other-task-ran-during-retry target=" + c.Target, fmt.Sprintf("%s ran in queue %s between attempt %d and %d", r.Hook, r.Queue, i-1, i)
			}
		}
	}
	if c.Target == "Synchronization" {
		last := attempts[len(attempts)-1]
		for _, r := range fx.Runs {
			for _, cc := range r.Contexts {
				if cc["binding"] == "kb" && cc["type"] == "Event" && r.StartSeq < last.EndSeq {
					return "C04 event-before-successful-synchronization", fmt.Sprintf("an Event of kb was executed before the Synchronization run succeeded; runs: %s", c03runs(fx))
				}
			}
		}
	}
	return "", ""
}

func c04failed(r *fxRun, _ c04case) bool { return r.Failed }

func TestVerifC04(t *testing.T) {
	r := vres.New("c04")
	defer r.Finish()
	bound := vres.Pick(0, 1)
	r.Bound("deviation_bound", bound)
	var cases []c04case
	for _, target := range []string{"onStartup", "Synchronization", "Event", "Schedule", "Combined", "Combined3"} {
		for k := 0; k <= 3; k++ {
			for _, f := range []string{"exit", "bad-metrics", "bad-patch", "unappliable-patch", "bad-admission-response", "bad-conversion-response"} {
				if k == 0 && f != "exit" {
					continue
				}
				for _, afk := range []bool{false, true} {
					for _, afs := range []bool{false, true} {
						// allowFailure values that cannot matter for the target are not varied
						if (target == "onStartup") && (afk || afs) {
							continue
						}
						if (target == "Synchronization" || target == "Event") && afs {
							continue
						}
						if target == "Schedule" && afk {
							continue
						}
						cases = append(cases, c04case{target, k, f, afk, afs, false})
						if target == "Schedule" && f == "exit" && k <= 2 {
							cases = append(cases, c04case{target, k, f, afk, afs, true})
						}
					}
				}
			}
		}
	}
	r.Bound("fault_sequences", len(cases))
	shard, shards := vres.Shard()
	for i, c := range cases {
		if !r.Replaying() && i%shards != shard {
			continue
		}
		c := c
		var obs *c04obs
		body := func(x *vrt.Exec) {
			obs = &c04obs{}
			c04body(c, obs)(x)
		}
		ex := &vrt.Explorer{Opts: vrt.Options{Bound: bound, MaxSteps: 200000, DelayBound: true}, Deadline: r.Deadline()}
		ex.Check = func(x *vrt.Exec) {
			obs.End, obs.Panics, obs.Blocked = x.End, x.Panics, x.Blocked
			key := fmt.Sprintf("%s|%v", c, x.Choices)
			r.Eval(1)
			r.Transition(int64(x.Steps))
			sig, what := c04check(obs)
			if sig != "" {
				r.Violation(sig, key, what, nil)
				r.Outcome("V:"+sig, true)
				return
			}
			var times []string
			for _, run := range obs.fx.Runs {
				times = append(times, fmt.Sprintf("%s@%s+%s", run.Hook, run.Queue, run.StartVT))
			}
			oc := c.String() + "|" + c03runs(obs.fx)
			r.State(oc)
			r.Outcome(oc, c.K > 0)
			if c.K > 0 {
				r.Sample(map[string]any{"case": c.String(), "executions": c03runs(obs.fx), "virtual_start_times": times})
			}
		}
		if r.Replaying() {
			parts := strings.SplitN(r.OnlyCase(), "|", 2)
			if len(parts) != 2 || parts[0] != c.String() {
				continue
			}
			var choices []int
			for _, f := range strings.Fields(strings.Trim(parts[1], "[]")) {
				var v int
				fmt.Sscan(f, &v)
				choices = append(choices, v)
			}
			opts := ex.Opts
			x := vrt.Run(&opts, choices, nil, body)
			ex.Check(x)
			continue
		}
		ex.Explore(body)
		r.Count("executions:target="+c.Target, ex.Stats.Executions)
		if ex.Stats.Capped != "" {
			r.Cap(c.String() + ":" + ex.Stats.Capped)
		}
		if r.Expired() {
			return
		}
	}
}
