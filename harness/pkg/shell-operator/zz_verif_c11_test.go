package shell_operator

// C11 part b — one task per enabled schedule binding per tick, carrying the binding's
// attributes. Every assignment of up to 2+2 schedule bindings (from a small alphabet of
// option vectors) to two hooks, with every enable/disable sequence from a menu, is loaded
// through the real HookManager.Init (stand-in answers --config), enabled through the real
// EnableScheduleBindings task handler, and every live cron job is fired once: the message
// goes through the real schedule event handler installed by initHookManager.

import (
	"fmt"
	"sort"
	"strings"
	"testing"

	"github.com/flant/shell-operator/pkg/hook/task_metadata"
	schedulemanager "github.com/flant/shell-operator/pkg/schedule_manager"
	"github.com/flant/shell-operator/pkg/task"
	"github.com/flant/shell-operator/pkg/zzverif/vres"
)

type c11bind struct {
	crontab string
	name    string
	queue   string
	allow   bool
	group   string
	incl    bool // includeSnapshotsFrom: [kb]
}

func (b c11bind) yaml() string {
	s := fmt.Sprintf("- crontab: %q\n", b.crontab)
	if b.name != "" {
		s += "  name: " + b.name + "\n"
	}
	if b.queue != "" {
		s += "  queue: " + b.queue + "\n"
	}
	if b.allow {
		s += "  allowFailure: true\n"
	}
	if b.group != "" {
		s += "  group: " + b.group + "\n"
	}
	if b.incl {
		s += "  includeSnapshotsFrom: [kb]\n"
	}
	return s
}

func (b c11bind) String() string {
	return fmt.Sprintf("%s/%s/%s/%v/%s/%v", strings.ReplaceAll(b.crontab, " ", ""), b.name, b.queue, b.allow, b.group, b.incl)
}

func c11bAlphabet() []c11bind {
	X, Y := "* * * * *", "*/5 * * * *"
	return []c11bind{
		{X, "", "", false, "", false},
		{X, "s1", "q2", true, "", false},
		{Y, "s1", "", false, "g", false},
		{X, "s2", "", true, "g", true},
		{Y, "", "q2", false, "", true},
		{X, "", "q2", true, "", false},
		// the first schedule written with other spacing (column-aligned): the binding fires like any other
		{"*  *  *  *  *", "s3", "", false, "", false},
	}
}

func c11hookConfig(bs []c11bind) string {
	if len(bs) == 0 {
		return "configVersion: v1\nonStartup: 1\n"
	}
	s := "configVersion: v1\nkubernetes:\n- name: kb\n  kind: Pod\n  group: g\nschedule:\n"
	for _, b := range bs {
		s += b.yaml()
	}
	return s
}

type c11expect struct {
	hook, name, queue, group string
	allow                    bool
	snaps                    string
}

func c11expected(hook string, b c11bind) c11expect {
	e := c11expect{hook: hook, name: b.name, queue: b.queue, group: b.group, allow: b.allow}
	if e.name == "" {
		e.name = "schedule"
	}
	if e.queue == "" {
		e.queue = "main"
	}
	if b.incl || b.group == "g" {
		e.snaps = "kb"
	}
	return e
}

func c11bRun(a, b []c11bind, seq []string) (sig, what, outcome string) {
	fx := newFixture([]fxHook{{Name: "a.sh", Config: c11hookConfig(a)}, {Name: "b.sh", Config: c11hookConfig(b)}})
	defer fx.close()
	defer func() {
		if r := recover(); r != nil {
			sig, what = "C11b panic", fmt.Sprint(r)
		}
	}()
	if err := fx.assemble(); err != nil {
		return "C11b config-rejected", err.Error(), ""
	}
	op := fx.op
	enabled := map[string]bool{}
	binds := map[string][]c11bind{"a.sh": a, "b.sh": b}
	var outs []string
	for _, step := range seq {
		hookName := step[2:] + ".sh"
		switch step[:2] {
		case "en":
			if len(binds[hookName]) > 0 {
				t := task.NewTask(task_metadata.EnableScheduleBindings).WithMetadata(task_metadata.HookMetadata{HookName: hookName})
				res := op.taskHandler(t)
				if res.Status != "Success" {
					return "C11b enable-failed", fmt.Sprintf("enable task status %s", res.Status), ""
				}
				enabled[hookName] = true
			}
		case "di":
			op.HookManager.GetHook(hookName).HookController.DisableScheduleBindings()
			enabled[hookName] = false
		}
		// fire every live cron job once, through the real handler
		sm := op.ScheduleManager
		fired := schedulemanager.ZZFireAll(sm)
		got := map[string][]string{}
		for _, crontab := range fired {
			for _, tk := range op.ManagerEventsHandler.scheduleCb(crontab) {
				hm := task_metadata.HookMetadataAccessor(tk)
				snaps := ""
				if len(hm.BindingContext) != 1 {
					return "C11b task-contexts", fmt.Sprintf("task for %s has %d contexts", crontab, len(hm.BindingContext)), ""
				}
				bc := hm.BindingContext[0]
				snaps = strings.Join(bc.Metadata.IncludeSnapshots, "+")
				if bc.Binding != hm.Binding || bc.Metadata.Group != hm.Group || string(bc.Metadata.BindingType) != "schedule" || string(hm.BindingType) != "schedule" {
					return "C11b task-context-mismatch", fmt.Sprintf("context %+v vs task %+v", bc, hm), ""
				}
				got[crontab] = append(got[crontab], fmt.Sprintf("%+v", c11expect{hm.HookName, hm.Binding, tk.GetQueueName(), hm.Group, hm.AllowFailure, snaps}))
			}
		}
		want := map[string][]string{}
		for _, hn := range []string{"a.sh", "b.sh"} {
			if !enabled[hn] {
				continue
			}
			for _, bd := range binds[hn] {
				want[bd.crontab] = append(want[bd.crontab], fmt.Sprintf("%+v", c11expected(hn, bd)))
			}
		}
		// the tasks of one tick of every schedule, whatever string each job reports as its crontab
		norm := func(m map[string][]string) string {
			var l []string
			for _, k := range sortedKeys(m) {
				l = append(l, m[k]...)
			}
			sort.Strings(l)
			return strings.Join(l, ", ")
		}
		if norm(got) != norm(want) {
			return "C11b tasks-per-tick after=" + step[:2], fmt.Sprintf("after %s one tick of every live crontab produced [%s], want [%s]", step, norm(got), norm(want)), ""
		}
		outs = append(outs, norm(got))
	}
	return "", "", strings.Join(outs, " || ")
}

func TestVerifC11b(t *testing.T) {
	r := vres.New("c11b")
	defer r.Finish()
	alpha := c11bAlphabet()
	var sets [][]c11bind
	sets = append(sets, nil)
	for _, x := range alpha {
		sets = append(sets, []c11bind{x})
	}
	if vres.Thorough() {
		for _, x := range alpha {
			for _, y := range alpha {
				sets = append(sets, []c11bind{x, y})
			}
		}
	} else {
		for i, x := range alpha {
			for j, y := range alpha {
				if j == i || j == (i+1)%len(alpha) || j == (i+3)%len(alpha) {
					sets = append(sets, []c11bind{x, y})
				}
			}
		}
	}
	seqs := [][]string{{"ena"}, {"ena", "enb"}, {"enb", "ena"}, {"ena", "enb", "dia"}, {"ena", "ena", "enb"}, {"ena", "dia", "ena", "enb", "dib"}}
	r.Bound("binding_alphabet", len(alpha))
	r.Bound("bindings_per_hook", "0..2")
	r.Bound("binding_sets_per_hook", len(sets))
	r.Bound("enable_disable_sequences", len(seqs))
	var ord int64
	for _, a := range sets {
		for _, b := range sets {
			if len(a)+len(b) == 0 {
				continue
			}
			for si, seq := range seqs {
				ord++
				if !(vres.Mine(ord) || r.Replaying()) {
					continue
				}
				key := fmt.Sprintf("a=%v b=%v seq=%d", a, b, si)
				if !r.Want(key) {
					continue
				}
				if r.Expired() {
					return
				}
				sig, what, outcome := c11bRun(a, b, seq)
				r.Eval(1)
				r.Transition(int64(len(seq)))
				if sig != "" {
					r.Violation(sig, key, what, nil)
					r.Outcome("V:"+sig, true)
					continue
				}
				r.State(outcome)
				r.Outcome(outcome, len(a)+len(b) > 1)
				r.Sample(map[string]any{"hook_a": fmt.Sprint(a), "hook_b": fmt.Sprint(b), "sequence": seq, "tasks_per_step": outcome})
			}
		}
	}
}
