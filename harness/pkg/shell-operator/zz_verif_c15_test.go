package shell_operator

// C15 part b — conversion chains are applied step by step.
// A hook with conversion rules v1->v2 and v2->v3 for one CRD is loaded through the operator's
// own initialisation; a ConversionReview (2 objects at v1, desired v3) is served by the real
// conversion HTTP handler and conversionEventHandler. Enumerated: the outcome of each step
// (converted, exit 1, empty response, failedMessage, wrong object count). Oracle: hooks invoked in chain order, each given the previous output, no step
// after a failing one, Success with as many objects as requested only if every step succeeded,
// otherwise Failed carrying the failing hook's own message when it gave one.

import (
	"bytes"
	"encoding/json"
	"fmt"
	"net/http"
	"net/http/httptest"
	"strings"
	"testing"

	"github.com/flant/shell-operator/pkg/zzverif/vres"
)

const c15hook = `configVersion: v1
kubernetesCustomResourceConversion:
- name: up12
  crdName: crontabs.stable.example.com
  conversions:
  - fromVersion: v1
    toVersion: v2
- name: up23
  crdName: crontabs.stable.example.com
  conversions:
  - fromVersion: v2
    toVersion: v3
`

// the same two rules declared by ONE binding (a binding may list several conversions)
const c15hookOneBinding = `configVersion: v1
kubernetesCustomResourceConversion:
- name: up
  crdName: crontabs.stable.example.com
  conversions:
  - fromVersion: v1
    toVersion: v2
  - fromVersion: v2
    toVersion: v3
`

// another CRD with the same version names and another graph: v1 -> v3 in one step
const c15hookJobs = `configVersion: v1
kubernetesCustomResourceConversion:
- name: jdirect
  crdName: jobs.stable.example.com
  conversions:
  - fromVersion: v1
    toVersion: v3
`

type c15step struct {
	kind string // ok exit1 empty failedMessage wrong-count not-converted
}

func c15obj(name, ver string, hops int) map[string]any {
	return map[string]any{"apiVersion": "stable.example.com/" + ver, "kind": "CronTab", "metadata": map[string]any{"name": name}, "spec": map[string]any{"hops": hops}}
}

// the rules of one CRD spread over two hooks
const c15hookA = `configVersion: v1
kubernetesCustomResourceConversion:
- name: up12
  crdName: crontabs.stable.example.com
  conversions:
  - fromVersion: v1
    toVersion: v2
`
const c15hookB = `configVersion: v1
kubernetesCustomResourceConversion:
- name: up23
  crdName: crontabs.stable.example.com
  conversions:
  - fromVersion: v2
    toVersion: v3
`

// conversion bindings that belong to a group (the way to include snapshots): still Conversion contexts
const c15hookGrouped = `configVersion: v1
kubernetes:
- name: kg
  kind: ConfigMap
  group: main
kubernetesCustomResourceConversion:
- name: up12
  crdName: crontabs.stable.example.com
  group: main
  conversions:
  - fromVersion: v1
    toVersion: v2
- name: up23
  crdName: crontabs.stable.example.com
  group: main
  conversions:
  - fromVersion: v2
    toVersion: v3
`

func c15run(steps []c15step, variant string) (sig, what, outcome string) {
	names := []string{"up12", "up23"}
	hooks := []fxHook{{Name: "conv.sh", Config: c15hook}}
	switch variant {
	case "one-binding":
		names = []string{"up", "up"}
		hooks = []fxHook{{Name: "conv.sh", Config: c15hookOneBinding}}
	case "two-hooks":
		hooks = []fxHook{{Name: "a-conv.sh", Config: c15hookA}, {Name: "b-conv.sh", Config: c15hookB}}
	case "grouped":
		hooks = []fxHook{{Name: "conv.sh", Config: c15hookGrouped}}
	}
	fx := newFixture(append(hooks, fxHook{Name: "jobs.sh", Config: c15hookJobs}))
	defer fx.close()
	defer func() {
		if r := recover(); r != nil {
			sig, what = "C15b panic", fmt.Sprint(r)
		}
	}()
	stepNo := 0
	fx.Script = func(run *fxRun) fxOutcome {
		i := stepNo
		stepNo++
		kind := "ok"
		if i < len(steps) {
			kind = steps[i].kind
		}
		// what the hook was given
		var objs []any
		to := ""
		if len(run.Contexts) == 1 {
			to, _ = run.Contexts[0]["toVersion"].(string)
			if rv, ok := run.Contexts[0]["review"].(map[string]any); ok {
				if rq, ok := rv["request"].(map[string]any); ok {
					objs, _ = rq["objects"].([]any)
				}
			}
		}
		convert := func(keepVersion bool, drop int) string {
			var out []any
			for j, o := range objs {
				if j < drop {
					continue
				}
				m, _ := o.(map[string]any)
				c := map[string]any{}
				for k, v := range m {
					c[k] = v
				}
				if !keepVersion {
					c["apiVersion"] = "stable.example.com/" + strings.TrimPrefix(to, "stable.example.com/")
				}
				spec, _ := m["spec"].(map[string]any)
				hops := 0.0
				if spec != nil {
					hops, _ = spec["hops"].(float64)
				}
				c["spec"] = map[string]any{"hops": hops + 1}
				out = append(out, c)
			}
			b, _ := json.Marshal(map[string]any{"convertedObjects": out})
			return string(b)
		}
		switch kind {
		case "ok":
			return fxOutcome{Conversion: convert(false, 0)}
		case "exit1":
			run.Failed = true
			return fxOutcome{Exit: 1, Conversion: convert(false, 0)}
		case "empty":
			run.Failed = true
			return fxOutcome{}
		case "failedMessage":
			run.Failed = true
			return fxOutcome{Conversion: `{"failedMessage": "cannot convert: field x is gone"}`}
		case "failedMessage+objects":
			// the hook reports a failure and still returns a full-length list
			run.Failed = true
			var m map[string]any
			_ = json.Unmarshal([]byte(convert(false, 0)), &m)
			m["failedMessage"] = "cannot convert: field x is gone"
			b, _ := json.Marshal(m)
			return fxOutcome{Conversion: string(b)}
		case "wrong-count":
			run.Failed = true
			return fxOutcome{Conversion: convert(false, 1)}
		case "not-converted":
			run.Failed = true
			return fxOutcome{Conversion: convert(true, 0)}
		}
		return fxOutcome{}
	}
	if err := fx.assemble(); err != nil {
		return "C15b config-rejected", err.Error(), ""
	}
	if err := fx.withWebhooks(); err != nil {
		return "C15b webhook-init", err.Error(), ""
	}
	review := map[string]any{"apiVersion": "apiextensions.k8s.io/v1", "kind": "ConversionReview", "request": map[string]any{
		"uid": "conv-1", "desiredAPIVersion": "stable.example.com/v3",
		"objects": []any{c15obj("a", "v1", 0), c15obj("b", "v1", 0)}}}
	body, _ := json.Marshal(review)
	req := httptest.NewRequest(http.MethodPost, "/crontabs.stable.example.com", bytes.NewReader(body))
	req.Header.Set("Content-Type", "application/json")
	rec := httptest.NewRecorder()
	fx.op.ConversionWebhookManager.Handler.Router.ServeHTTP(rec, req)
	if rec.Code != http.StatusOK {
		return "C15b http-status", fmt.Sprintf("HTTP %d: %s", rec.Code, rec.Body.String()), ""
	}
	var ans struct {
		Response *struct {
			UID              string           `json:"uid"`
			ConvertedObjects []map[string]any `json:"convertedObjects"`
			Result           struct {
				Status  string `json:"status"`
				Message string `json:"message"`
			} `json:"result"`
		} `json:"response"`
	}
	if err := json.Unmarshal(rec.Body.Bytes(), &ans); err != nil || ans.Response == nil {
		return "C15b no-response", rec.Body.String(), ""
	}
	// expected: steps run until the first failing one
	firstFail := -1
	for i := 0; i < 2; i++ {
		k := "ok"
		if i < len(steps) {
			k = steps[i].kind
		}
		if k != "ok" {
			firstFail = i
			break
		}
	}
	wantRuns := 2
	if firstFail >= 0 {
		wantRuns = firstFail + 1
	}
	var seq []string
	for _, r := range fx.Runs {
		if len(r.Contexts) == 1 {
			seq = append(seq, fmt.Sprintf("%v:%v->%v", r.Contexts[0]["binding"], r.Contexts[0]["fromVersion"], r.Contexts[0]["toVersion"]))
		}
	}
	desc := fmt.Sprintf("steps %v: hooks invoked %v, answer %s %q with %d objects", steps, seq, ans.Response.Result.Status, ans.Response.Result.Message, len(ans.Response.ConvertedObjects))
	wantSeq := []string{names[0] + ":v1->v2", names[1] + ":v2->v3"}[:wantRuns]
	if len(seq) > wantRuns {
		return "C15b step-after-failure kind=" + steps[firstFail].kind, desc, ""
	}
	if strings.Join(seq, ",") != strings.Join(wantSeq, ",") {
		return "C15b chain-order", desc + fmt.Sprintf(" (want %v)", wantSeq), ""
	}
	// the second hook receives the first hook's output
	if len(fx.Runs) == 2 {
		rv, _ := fx.Runs[1].Contexts[0]["review"].(map[string]any)
		rq, _ := rv["request"].(map[string]any)
		objs, _ := rq["objects"].([]any)
		for _, o := range objs {
			m, _ := o.(map[string]any)
			spec, _ := m["spec"].(map[string]any)
			if m["apiVersion"] != "stable.example.com/v2" || spec == nil || spec["hops"] != 1.0 {
				return "C15b step-input", fmt.Sprintf("the second hook was given %v, not the first hook's output", o), ""
			}
		}
		if len(objs) != 2 {
			return "C15b step-input", fmt.Sprintf("the second hook was given %d objects", len(objs)), ""
		}
	}
	success := ans.Response.Result.Status == "Success"
	if firstFail < 0 {
		if !success || len(ans.Response.ConvertedObjects) != 2 {
			return "C15b success-expected", desc, ""
		}
		for _, o := range ans.Response.ConvertedObjects {
			if o["apiVersion"] != "stable.example.com/v3" {
				return "C15b wrong-version", desc, ""
			}
		}
		// the same request for the other CRD is served by that CRD's own rules: one step, v1 -> v3
		before := len(fx.Runs)
		review["request"].(map[string]any)["uid"] = "conv-2"
		body2, _ := json.Marshal(review)
		req2 := httptest.NewRequest(http.MethodPost, "/jobs.stable.example.com", bytes.NewReader(body2))
		req2.Header.Set("Content-Type", "application/json")
		rec2 := httptest.NewRecorder()
		fx.op.ConversionWebhookManager.Handler.Router.ServeHTTP(rec2, req2)
		var seq2 []string
		for _, r := range fx.Runs[before:] {
			if len(r.Contexts) == 1 {
				seq2 = append(seq2, fmt.Sprintf("%v:%v->%v", r.Contexts[0]["binding"], r.Contexts[0]["fromVersion"], r.Contexts[0]["toVersion"]))
			}
		}
		if rec2.Code != http.StatusOK || !strings.Contains(rec2.Body.String(), `"Success"`) || strings.Join(seq2, ",") != "jdirect:v1->v3" {
			return "C15b other-crd-served-with-foreign-rules", fmt.Sprintf("after crontabs v1->v3, jobs v1->v3 (declared: one rule v1->v3): hooks invoked %v, answer HTTP %d %s", seq2, rec2.Code, rec2.Body.String()), ""
		}
		return "", "", "Success"
	}
	if success {
		return "C15b success-after-failed-step kind=" + steps[firstFail].kind, desc, ""
	}
	if strings.HasPrefix(steps[firstFail].kind, "failedMessage") && !strings.Contains(ans.Response.Result.Message, "cannot convert: field x is gone") {
		return "C15b hook-message-not-relayed", desc, ""
	}
	return "", "", "Failed:" + steps[firstFail].kind
}

func TestVerifC15b(t *testing.T) {
	r := vres.New("c15b")
	defer r.Finish()
	kinds := []string{"ok", "exit1", "empty", "failedMessage", "failedMessage+objects", "wrong-count"}
	r.Bound("step_outcomes", kinds)
	var ord int64
	for _, k1 := range kinds {
		for _, k2 := range kinds {
			for _, variant := range []string{"", "one-binding", "two-hooks", "grouped"} {
				ord++
				if !(vres.Mine(ord) || r.Replaying()) {
					continue
				}
				key := k1 + "," + k2
				if variant != "" {
					key += "|" + variant
				}
				if !r.Want(key) {
					continue
				}
				sig, what, outcome := c15run([]c15step{{k1}, {k2}}, variant)
				r.Eval(1)
				r.Transition(2)
				if sig != "" {
					r.Violation(sig, key, what, nil)
					r.Outcome("V:"+sig, true)
					continue
				}
				r.State(key)
				r.Outcome(outcome, k1 != "ok" || k2 != "ok")
				r.Sample(map[string]any{"step_outcomes": key, "answer": outcome})
			}
		}
	}
}
