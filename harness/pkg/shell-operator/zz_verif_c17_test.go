package shell_operator

// C17 — shutdown stops the queues cleanly.
// Scenario of C03 (two hooks, bindings in `main` and `q2`, ticks and kubernetes events) plus
// a shutdown thread running the operator's own Shutdown() sequence. When shutdown is
// requested is an enumerated parameter (after k task/hook events, k = 0..K, i.e. queues
// empty, in a back-off delay, in the middle of a handler, with events and ticks still
// arriving); where exactly inside the worker loops it lands is explored by the scheduler
// (delay-bounded). Oracle: after the stop request returned a queue starts at most the task it
// had already picked; every worker has terminated at the virtual instant its current
// handler returned (no timer needed); later ticks and events cause no execution.

import (
	"github.com/flant/shell-operator/pkg/task/queue"
	"context"
	"fmt"
	"strings"
	"testing"
	"time"

	metav1 "k8s.io/apimachinery/pkg/apis/meta/v1"

	kubeeventsmanager "github.com/flant/shell-operator/pkg/kube_events_manager"
	schedulemanager "github.com/flant/shell-operator/pkg/schedule_manager"
	"github.com/flant/shell-operator/pkg/zzverif/vres"
	"github.com/flant/shell-operator/pkg/zzverif/vrt"
)

type c17obs struct {
	fx        *fixture
	K         int
	Mode      string
	StopSeq   int           // fixture sequence number when TaskQueues.Stop() had returned
	StopVT    time.Duration // virtual time of the stop request
	Stopped   map[string]time.Duration
	ShutdownReturned bool
	ShutdownVT time.Duration
	End       string
	Panics    []string
	Blocked   []string
	Reached   bool // the stop point k was reached at all
	StopStep  int  // length of the scheduler trace at the stop request
	Trace     []vrt.Step
}

func c17body(mode string, k int, obs *c17obs) func(x *vrt.Exec) {
	return func(x *vrt.Exec) {
		fx := newFixture([]fxHook{{Name: "a.sh", Config: c03hookA}, {Name: "b.sh", Config: c03hookB}})
		obs.fx, obs.K, obs.Mode = fx, k, mode
		obs.Stopped = map[string]time.Duration{}
		defer fx.close()
		hub := &kubeeventsmanager.ZZHub{}
		kubeeventsmanager.ZZInstallHub(hub)
		defer kubeeventsmanager.ZZInstallHub(nil)
		fx.withCluster()
		ctx := context.Background()
		dyn := fx.op.KubeClient.Dynamic()
		for _, ns := range []string{"n1", "n2"} {
			if _, err := dyn.Resource(cmGVR).Namespace(ns).Create(ctx, cmObj(ns, "o", 0), metav1.CreateOptions{}); err != nil {
				panic(err)
			}
		}
		startupDone, stopRequested := false, false
		fx.Script = func(run *fxRun) fxOutcome {
			if !startupDone {
				return fxOutcome{}
			}
			switch mode {
			case "failing":
				// hooks fail: queues sit in their back-off delay when shutdown arrives
				return fxOutcome{Exit: 1}
			case "inside-handler":
				// a hook that is running when shutdown is requested returns only afterwards
				return fxOutcome{Block: func() bool { return stopRequested }}
			}
			return fxOutcome{}
		}
		var err error
		vrt.Atomic(func() { err = fx.assemble() })
		if err != nil {
			panic(err)
		}
		if mode == "early" {
			// shutdown races with Start(): requested after k scheduling steps of the start-up
			c17early(fx, k, obs, x, &startupDone)
			return
		}
		vrt.Exploring(false)
		fx.start()
		ok := vrt.WaitFor("startup", 10*time.Minute, func() bool {
			return fx.op.TaskQueues.GetMain() != nil && fx.op.TaskQueues.GetMain().IsEmpty() && len(fx.Runs) >= 2 && schedulemanager.ZZJobs(fx.op.ScheduleManager) >= 1 && !hub.Pending() && hub.Busy == 0
		})
		if !ok {
			return
		}
		startupDone = true
		baseEvents := len(fx.Events) + len(fx.Runs)
		// record when each worker reaches its final state
		vrt.Eager(func() {
			for _, name := range []string{"main", "q2"} {
				if q := fx.op.TaskQueues.Queues[name]; q != nil && q.Status == "stop" {
					if _, seen := obs.Stopped[name]; !seen {
						obs.Stopped[name] = x.Now()
					}
				}
			}
		})
		vrt.Exploring(true)
		envDone := false
		vrt.GoNamed("env", func() {
			// mode "listing": what the operator's metrics loop (every 5 s) and the debug command
			// `queue list` do - walk the queue set - happens while a tick / an event is on its way
			// to the events handler
			list := func() {
				if mode == "listing" {
					fx.op.TaskQueues.Iterate(func(q *queue.TaskQueue) { _ = q.Length() })
				}
			}
			for i := 1; i <= 3; i++ {
				vrt.Yield("env-tick")
				schedulemanager.ZZRunJobs(fx.op.ScheduleManager)
				list()
				vrt.Yield("env-kube")
				for _, ns := range []string{"n1", "n2"} {
					old, _ := dyn.Resource(cmGVR).Namespace(ns).Get(ctx, "o", metav1.GetOptions{})
					o := cmObj(ns, "o", i)
					if _, err := dyn.Resource(cmGVR).Namespace(ns).Update(ctx, o, metav1.UpdateOptions{}); err != nil {
						panic(err)
					}
					hub.Notify(cmGVR, "update", old, o)
				}
				list()
			}
			envDone = true
		})
		shutdownDone := false
		vrt.GoNamed("shutdown", func() {
			obs.Reached = vrt.WaitFor("stop-point", 5*time.Minute, func() bool { return len(fx.Events)+len(fx.Runs)-baseEvents >= k })
			op := fx.op
			// the operator's own Shutdown() sequence, with a marker after the stop request
			op.ScheduleManager.Stop()
			op.KubeEventsManager.PauseHandleEvents()
			op.TaskQueues.Stop()
			fx.mu.Lock()
			obs.StopSeq = fx.nextSeq()
			fx.mu.Unlock()
			obs.StopVT = x.Now()
			obs.StopStep = len(x.Trace)
			stopRequested = true
			op.TaskQueues.WaitStopWithTimeout(WaitQueuesTimeout)
			obs.ShutdownReturned = true
			obs.ShutdownVT = x.Now()
			shutdownDone = true
		})
		vrt.WaitFor("end", 20*time.Minute, func() bool { return shutdownDone && envDone })
		// let late ticks / events try to cause executions
		vrt.WaitFor("after", time.Minute, func() bool { return false })
	}
}

// c17early: the shutdown sequence runs in a thread of its own from the very beginning; it is
// released after k scheduler steps, i.e. possibly in the middle of Start() (queues being created).
func c17early(fx *fixture, k int, obs *c17obs, x *vrt.Exec, startupDone *bool) {
	*startupDone = true
	vrt.Eager(func() {
		for _, name := range []string{"main", "q2"} {
			if q := fx.op.TaskQueues.Queues[name]; q != nil && q.Status == "stop" {
				if _, seen := obs.Stopped[name]; !seen {
					obs.Stopped[name] = x.Now()
				}
			}
		}
	})
	shutdownDone := false
	vrt.GoNamed("shutdown", func() {
		obs.Reached = true
		op := fx.op
		op.ScheduleManager.Stop()
		op.KubeEventsManager.PauseHandleEvents()
		op.TaskQueues.Stop()
		fx.mu.Lock()
		obs.StopSeq = fx.nextSeq()
		fx.mu.Unlock()
		obs.StopVT = x.Now()
		obs.StopStep = len(x.Trace)
		op.TaskQueues.WaitStopWithTimeout(WaitQueuesTimeout)
		obs.ShutdownReturned = true
		obs.ShutdownVT = x.Now()
		shutdownDone = true
	})
	fx.start()
	vrt.WaitFor("end", 20*time.Minute, func() bool { return shutdownDone })
	vrt.WaitFor("after", time.Minute, func() bool { return false })
}

func c17check(obs *c17obs) (string, string) {
	if len(obs.Panics) > 0 {
		return "C17 panic", strings.Join(obs.Panics, "\n")
	}
	if obs.End == "deadlock" {
		return "C17 deadlock", "no thread can move: " + strings.Join(obs.Blocked, "; ")
	}
	fx := obs.fx
	if !obs.ShutdownReturned {
		return "C17 shutdown-did-not-return", fmt.Sprintf("Shutdown did not come back (end=%s)", obs.End)
	}
	for _, qn := range []string{"main", "q2"} {
		inProgress := false
		var lastEnd time.Duration = -1
		beginsAfter := 0
		prevEndStep := 0
		for _, e := range fx.Events {
			if e.Queue != qn {
				continue
			}
			if e.Seq < obs.StopSeq {
				inProgress = e.Kind == "begin"
				if e.Kind == "end" {
					prevEndStep = e.Step
				}
				continue
			}
			if e.Kind == "begin" {
				beginsAfter++
				// "the one it had already picked": a task begun after the stop request must come from a
				// wait that passed its cancellation check before the request. The worker's scheduler
				// trace shows whether such a check (a select in its wait for a task) lies between
				// the end of its previous handler and the stop request.
				checked := false
				lo, hi := min(prevEndStep, len(obs.Trace)), min(obs.StopStep, len(obs.Trace))
				for _, st := range obs.Trace[lo:max(lo, hi)] {
					if st.T == e.Thread && st.Kind == "select" && strings.Contains(st.Site, "waitForTask") {
						checked = true
					}
				}
				if !checked && !inProgress {
					return "C17 task-picked-after-stop", fmt.Sprintf("queue %s executed %s after the stop request although its worker had not passed a cancellation check between its previous handler and the request", qn, e.Desc)
				}
				if inProgress {
					return "C17 task-started-after-stop", fmt.Sprintf("queue %s started %s after the stop request although its handler was running when stop was requested", qn, e.Desc)
				}
			} else {
				lastEnd = e.VT
				prevEndStep = e.Step
			}
		}
		if beginsAfter > 1 {
			return "C17 task-started-after-stop", fmt.Sprintf("queue %s started %d tasks after the stop request returned", qn, beginsAfter)
		}
		if obs.Mode == "early" && fx.op.TaskQueues.Queues[qn] == nil {
			continue // shutdown came before this queue was created
		}
		st, stopped := obs.Stopped[qn]
		if !stopped {
			return "C17 worker-not-terminated", fmt.Sprintf("the worker of queue %s has not terminated when Shutdown returned / the run ended", qn)
		}
		due := obs.StopVT
		if lastEnd > due {
			due = lastEnd
		}
		if st > due {
			return "C17 worker-terminated-late", fmt.Sprintf("the worker of queue %s terminated at +%s, its last handler had returned and stop was requested by +%s: it needed a timer to notice", qn, st, due)
		}
	}
	// no execution begins after every worker has terminated
	var allStopped time.Duration
	for _, st := range obs.Stopped {
		if st > allStopped {
			allStopped = st
		}
	}
	for _, r := range fx.Runs {
		if r.StartSeq > obs.StopSeq && r.StartVT > allStopped {
			return "C17 execution-after-shutdown", fmt.Sprintf("hook %s was executed at +%s, after all queues had stopped (+%s)", r.Hook, r.StartVT, allStopped)
		}
	}
	return "", ""
}

func TestVerifC17(t *testing.T) {
	r := vres.New("c17")
	defer r.Finish()
	bound := vres.Pick(1, 2)
	maxK := vres.Pick(12, 24)
	r.Bound("deviation_bound", bound)
	r.Bound("stop_points_k", maxK+1)
	modes := []string{"plain", "failing", "inside-handler", "listing", "early"}
	r.Bound("modes", modes)
	shard, shards := vres.Shard()
	var ord int64
	for _, mode := range modes {
		for k := 0; k <= maxK; k++ {
			ord++
			// whole (mode,k) explorations are dealt to shards
			if !r.Replaying() && int(ord%int64(shards)) != shard {
				continue
			}
			mode, k := mode, k
			var obs *c17obs
			body := func(x *vrt.Exec) {
				obs = &c17obs{}
				c17body(mode, k, obs)(x)
			}
			ex := &vrt.Explorer{Opts: vrt.Options{Bound: bound, MaxSteps: 80000, DelayBound: true, RecordTrace: true}, Deadline: r.Deadline()}
			if mode == "early" {
				if k > 0 {
					continue // one exploration: the request can pre-empt Start() at every scheduling point
				}
				if ex.Opts.Bound < 1 {
					ex.Opts.Bound = 1
				}
			}
			scen := fmt.Sprintf("%s/k=%d", mode, k)
			ex.Check = func(x *vrt.Exec) {
				obs.End, obs.Panics, obs.Blocked, obs.Trace = x.End, x.Panics, x.Blocked, x.Trace
				key := fmt.Sprintf("%s|%v", scen, x.Choices)
				r.Eval(1)
				r.Transition(int64(x.Steps))
				if !obs.Reached {
					r.Count("stop_point_not_reached", 1)
				}
				sig, what := c17check(obs)
				if sig != "" {
					r.Violation(sig+" mode="+mode, key, what, nil)
					r.Outcome("V:"+sig, true)
					return
				}
				oc := fmt.Sprintf("%s|stopseq-rel=%v|%s", scen, obs.Stopped, c03runs(obs.fx))
				r.State(oc)
				r.Outcome(oc, x.Devs() > 0 || k > 0)
				if x.Devs() > 0 {
					r.Sample(map[string]any{"mode": mode, "stop_after_events": k, "choices": fmt.Sprint(x.Choices), "workers_stopped_at": fmt.Sprint(obs.Stopped), "stop_requested_at": obs.StopVT.String(), "executions": c03runs(obs.fx)})
				}
			}
			if r.Replaying() {
				parts := strings.SplitN(r.OnlyCase(), "|", 2)
				if len(parts) != 2 || parts[0] != scen {
					continue
				}
				var choices []int
				for _, f := range strings.Fields(strings.Trim(parts[1], "[]")) {
					var c int
					fmt.Sscan(f, &c)
					choices = append(choices, c)
				}
				opts := ex.Opts
				x := vrt.Run(&opts, choices, nil, body)
				ex.Check(x)
				continue
			}
			ex.Explore(body)
			r.Count("executions:mode="+mode, ex.Stats.Executions)
			if ex.Stats.Capped != "" {
				r.Cap(scen + ":" + ex.Stats.Capped)
			}
			if r.Expired() {
				return
			}
		}
	}
}
