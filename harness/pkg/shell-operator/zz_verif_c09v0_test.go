package shell_operator

// C09, configVersion v0 — the quantifier names both config versions. A v0 hook (onStartup,
// schedule, onKubernetesEvent) is loaded into the real operator and start-up, an Added, a
// Modified, a Deleted change and a tick are played. v0 hooks get no Synchronization; their
// contexts are the short form: {"binding": <name>} and, for kubernetes events,
// resourceEvent (add | update | delete), resourceNamespace, resourceKind and resourceName of the
// object the event is about.

import (
	"context"
	"fmt"
	"strings"
	"time"

	metav1 "k8s.io/apimachinery/pkg/apis/meta/v1"

	kubeeventsmanager "github.com/flant/shell-operator/pkg/kube_events_manager"
	schedulemanager "github.com/flant/shell-operator/pkg/schedule_manager"
	"github.com/flant/shell-operator/pkg/zzverif/vrt"
)

const c09v0config = `{"onStartup": 1, "schedule": [{"name": "s0", "crontab": "* * * * *"}], "onKubernetesEvent": [{"name": "k0", "kind": "ConfigMap", "event": ["add", "update", "delete"], "namespaceSelector": {"matchNames": ["n1"]}}]}`

func c09runV0() (sig, what string, seen map[string]int) {
	seen = map[string]int{}
	opts := vrt.Options{Bound: 0, MaxSteps: 200000, DelayBound: true}
	var allCtx []map[string]any
	var notes []string
	x := vrt.Run(&opts, nil, nil, func(x *vrt.Exec) {
		fx := newFixture([]fxHook{{Name: "h0.sh", Config: c09v0config}})
		defer fx.close()
		hub := &kubeeventsmanager.ZZHub{}
		kubeeventsmanager.ZZInstallHub(hub)
		defer kubeeventsmanager.ZZInstallHub(nil)
		fx.withCluster()
		ctx := context.Background()
		dyn := fx.op.KubeClient.Dynamic()
		if _, err := dyn.Resource(cmGVR).Namespace("n1").Create(ctx, cmObj("n1", "a", 0), metav1.CreateOptions{}); err != nil {
			panic(err)
		}
		if err := fx.assemble(); err != nil {
			notes = append(notes, "config rejected: "+err.Error())
			return
		}
		fx.start()
		quiet := func() bool {
			if hub.Pending() || hub.Busy != 0 {
				return false
			}
			q := fx.op.TaskQueues.GetMain()
			return q != nil && q.IsEmpty() && idle(fx, "main")
		}
		if !vrt.WaitFor("startup", 30*time.Minute, func() bool { return quiet() && len(fx.Runs) >= 1 && schedulemanager.ZZJobs(fx.op.ScheduleManager) >= 1 }) {
			notes = append(notes, "startup did not finish")
			return
		}
		finished := func() int {
			n := 0
			for _, r := range fx.Runs {
				if r.EndSeq > 0 {
					n++
				}
			}
			return n
		}
		step := func(f func()) {
			before := finished()
			f()
			vrt.WaitFor("settle", 10*time.Minute, func() bool { return finished() > before && quiet() && len(fx.op.KubeEventsManager.Ch()) == 0 })
		}
		step(func() {
			ob := cmObj("n1", "b", 1)
			_, _ = dyn.Resource(cmGVR).Namespace("n1").Create(ctx, ob, metav1.CreateOptions{})
			hub.Notify(cmGVR, "add", nil, ob)
		})
		step(func() {
			old, _ := dyn.Resource(cmGVR).Namespace("n1").Get(ctx, "a", metav1.GetOptions{})
			ob := cmObj("n1", "a", 2)
			_, _ = dyn.Resource(cmGVR).Namespace("n1").Update(ctx, ob, metav1.UpdateOptions{})
			hub.Notify(cmGVR, "update", old, ob)
		})
		step(func() {
			old, _ := dyn.Resource(cmGVR).Namespace("n1").Get(ctx, "b", metav1.GetOptions{})
			_ = dyn.Resource(cmGVR).Namespace("n1").Delete(ctx, "b", metav1.DeleteOptions{})
			hub.Notify(cmGVR, "delete", nil, old)
		})
		step(func() { schedulemanager.ZZRunJobs(fx.op.ScheduleManager) })
		for _, r := range fx.Runs {
			if r.FilesOK != "" {
				notes = append(notes, "file: "+r.FilesOK)
			}
			allCtx = append(allCtx, r.Contexts...)
		}
	})
	if len(x.Panics) > 0 {
		return "C09 panic config=v0", strings.Join(x.Panics, "\n"), seen
	}
	if len(notes) > 0 {
		return "C09 scenario config=v0", strings.Join(notes, "; "), seen
	}
	wantKube := map[string]string{"add": "b", "update": "a", "delete": "b"}
	for _, c := range allCtx {
		b, _ := c["binding"].(string)
		switch b {
		case "onStartup", "s0":
			seen[b]++
		case "k0":
			ev, _ := c["resourceEvent"].(string)
			seen["k0/"+ev]++
			name, ok := wantKube[ev]
			if !ok {
				return "C09 v0-context resourceEvent", fmt.Sprintf("kubernetes context of a v0 hook has resourceEvent %q: %v", ev, c), seen
			}
			if c["resourceName"] != name || c["resourceNamespace"] != "n1" || c["resourceKind"] != "ConfigMap" {
				return "C09 v0-context object-reference", fmt.Sprintf("%s event: context names %v/%v/%v, the change was to ConfigMap n1/%s", ev, c["resourceKind"], c["resourceNamespace"], c["resourceName"], name), seen
			}
		default:
			return "C09 v0-context binding", fmt.Sprintf("context with binding %q: %v", b, c), seen
		}
		if _, has := c["snapshots"]; has {
			return "C09 v0-context snapshots", fmt.Sprintf("a v0 context carries snapshots: %v", c), seen
		}
	}
	for _, w := range []string{"onStartup", "s0", "k0/add", "k0/update", "k0/delete"} {
		if seen[w] == 0 {
			return "C09 context-kind-not-delivered config=v0", fmt.Sprintf("no %s context was delivered (seen %v)", w, seen), seen
		}
	}
	return "", "", seen
}
