package shell_operator

// Free-running race-detector pass over the assembled operator (DESIGN.md §2.3, §8): the
// scenario of C03 / C17 - two hooks, bindings in `main` and `q2`, ticks and cluster changes,
// then the operator's own Shutdown() - with real goroutines, REAL client-go informers (no hub)
// and the binary built with -race. It decides nothing about any property; it cross-checks that
// every unsynchronised access in the instrumented sources is one of the listed scheduling
// points (vres.ReportRaces): the controlled scheduler switches threads only at lock, channel,
// timer and goroutine-start operations and at those listed accesses.

import (
	"context"
	"testing"
	"time"

	metav1 "k8s.io/apimachinery/pkg/apis/meta/v1"

	kubeeventsmanager "github.com/flant/shell-operator/pkg/kube_events_manager"
	schedulemanager "github.com/flant/shell-operator/pkg/schedule_manager"
	"github.com/flant/shell-operator/pkg/zzverif/vres"
)

// counts reads the fixture's log under its lock (free-running mode).
func (fx *fixture) counts() (finished int, open int) {
	fx.mu.Lock()
	defer fx.mu.Unlock()
	for _, r := range fx.Runs {
		if r.EndSeq > 0 {
			finished++
		}
	}
	for _, e := range fx.Events {
		if e.Kind == "begin" {
			open++
		} else {
			open--
		}
	}
	return
}

func raceWait(limit time.Duration, cond func() bool) bool {
	dl := time.Now().Add(limit)
	for !cond() {
		if time.Now().After(dl) {
			return false
		}
		time.Sleep(200 * time.Microsecond)
	}
	return true
}

func raceOperatorOnce(variant int) string {
	fx := newFixture([]fxHook{{Name: "a.sh", Config: c03hookA}, {Name: "b.sh", Config: c03hookB}})
	defer fx.close()
	fx.withCluster()
	ctx := context.Background()
	dyn := fx.op.KubeClient.Dynamic()
	for _, ns := range []string{"n1", "n2"} {
		if _, err := dyn.Resource(cmGVR).Namespace(ns).Create(ctx, cmObj(ns, "o", 0), metav1.CreateOptions{}); err != nil {
			panic(err)
		}
	}
	if err := fx.assemble(); err != nil {
		panic(err)
	}
	fx.start()
	quiet := func() bool {
		for _, q := range []string{"main", "q2"} {
			if tq := fx.op.TaskQueues.GetByName(q); tq == nil || !tq.IsEmpty() {
				return false
			}
		}
		_, open := fx.counts()
		return open == 0 && len(fx.op.KubeEventsManager.Ch()) == 0
	}
	if !raceWait(20*time.Second, func() bool {
		n, _ := fx.counts()
		return n >= 2 && quiet() && schedulemanager.ZZJobs(fx.op.ScheduleManager) >= 1
	}) {
		return "start-up did not finish in 20s"
	}
	done := make(chan struct{})
	go func() { // environment: ticks and cluster changes
		defer close(done)
		for i := 1; i <= 3; i++ {
			schedulemanager.ZZRunJobs(fx.op.ScheduleManager)
			for _, ns := range []string{"n1", "n2"} {
				_, _ = dyn.Resource(cmGVR).Namespace(ns).Update(ctx, cmObj(ns, "o", i), metav1.UpdateOptions{})
			}
			time.Sleep(time.Duration(variant%4) * 100 * time.Microsecond)
		}
	}()
	if variant%2 == 0 {
		<-done
		raceWait(10*time.Second, func() bool {
			n, _ := fx.counts()
			return n >= 4 && quiet()
		})
	}
	// shutdown, possibly in the middle of the traffic
	fx.op.Shutdown()
	<-done
	time.Sleep(2 * time.Millisecond)
	return ""
}

func TestVerifRaceOperator(t *testing.T) {
	r := vres.New("oprace")
	defer r.Finish()
	saved := kubeeventsmanager.DefaultSyncTime
	kubeeventsmanager.DefaultSyncTime = 200 * time.Microsecond
	defer func() { kubeeventsmanager.DefaultSyncTime = saved }()
	iters := vres.Pick(12, 96)
	r.Bound("free_running_iterations", iters)
	var n int64
	for it := 0; it < iters && !r.Expired(); it++ {
		if !vres.Mine(int64(it)) {
			continue
		}
		if msg := raceOperatorOnce(it); msg != "" {
			r.Note("race pass iteration %d: %s", it, msg)
		}
		n++
	}
	time.Sleep(50 * time.Millisecond)
	r.Count("race_pass_iterations", n)
	r.Note("free-running -race pass over the assembled operator (queues, events handler, controllers, schedule manager, kube events manager with real client-go informers, Shutdown)")
	vres.ReportRaces(r)
}
