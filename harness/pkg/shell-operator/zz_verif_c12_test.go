package shell_operator

// C12 — hook execution contract: inputs via files, outputs read back, temp files gone.
// Part a (real processes): a real /bin/sh hook dumps its working directory, the six environment
// variables, the state of the prepared files and the binding-context file, then writes scripted
// contents into the four output files and exits with a scripted code. Enumerated: exit code in
// {0,1,2} x contents of each output file in {untouched, valid, truncated, wrong type}, with 1-3
// binding contexts, through the operator's real taskHandler (patch applied to the fake cluster,
// metrics into the hook registry, responses into the task).
// Part b (scheduler): two executions of the same hook in two threads with scheduling points at
// every os.* call of hook.go and inside the (stand-in) process.

import (
	utils_file "github.com/flant/shell-operator/pkg/utils/file"
	"context"
	"encoding/json"
	"fmt"
	"os"
	"path/filepath"
	"strings"
	"testing"
	"time"

	"github.com/deckhouse/deckhouse/pkg/log"
	metav1 "k8s.io/apimachinery/pkg/apis/meta/v1"

	"github.com/flant/shell-operator/pkg/executor"
	bindingcontext "github.com/flant/shell-operator/pkg/hook/binding_context"
	"github.com/flant/shell-operator/pkg/hook/task_metadata"
	htypes "github.com/flant/shell-operator/pkg/hook/types"
	objectpatch "github.com/flant/shell-operator/pkg/kube/object_patch"
	"github.com/flant/shell-operator/pkg/task"
	"github.com/flant/shell-operator/pkg/zzverif/vfx"
	"github.com/flant/shell-operator/pkg/zzverif/vres"
	"github.com/flant/shell-operator/pkg/zzverif/vrt"
)

const c12script = `#!/bin/sh
if [ "$1" = "--config" ]; then
  printf 'configVersion: v1\nschedule:\n- name: s1\n  crontab: "* * * * *"\n- name: s2\n  crontab: "* * * * *"\n- name: s3\n  crontab: "* * * * *"\n'
  exit 0
fi
D="$C12_CASE"
n=$(cat "$D/runs" 2>/dev/null || echo 0); n=$((n+1)); echo $n > "$D/runs"
{
  echo "cwd=$(pwd)"
  for v in BINDING_CONTEXT_PATH METRICS_PATH CONVERSION_RESPONSE_PATH VALIDATING_RESPONSE_PATH ADMISSION_RESPONSE_PATH KUBERNETES_PATCH_PATH; do
    eval p=\$$v
    if [ -e "$p" ]; then sz=$(wc -c < "$p" | tr -d ' '); else sz=missing; fi
    echo "$v=$p size=$sz"
  done
} > "$D/dump.$n"
cp "$BINDING_CONTEXT_PATH" "$D/context.$n"
c=$(cat "$D/chatter" 2>/dev/null || echo 0)
if [ "$c" -gt 0 ]; then head -c "$c" /dev/zero | tr '\000' 'x' | fold -w 100 >&2; fi
[ -f "$D/metrics.out" ] && cat "$D/metrics.out" > "$METRICS_PATH"
[ -f "$D/patch.out" ] && cat "$D/patch.out" > "$KUBERNETES_PATCH_PATH"
[ -f "$D/admission.out" ] && cat "$D/admission.out" > "$ADMISSION_RESPONSE_PATH"
[ -f "$D/conversion.out" ] && cat "$D/conversion.out" > "$CONVERSION_RESPONSE_PATH"
e=$(cat "$D/exit")
case "$e" in
  -*) kill "$e" $$; sleep 5 ;;
esac
exit $e
`

var c12contents = map[string][4]string{
	// untouched, valid, truncated, wrong type
	"metrics":    {"", `{"name":"c12_metric","action":"set","value":1,"labels":{"k":"v"}}` + "\n", `{"name":"c12_metric","action":"se`, `{"name":"c12_metric","action":"set","value":"one"}` + "\n"},
	"patch":      {"", `{"operation":"Create","object":{"apiVersion":"v1","kind":"ConfigMap","metadata":{"name":"made-by-hook","namespace":"default"}}}` + "\n", `{"operation":"Create","object":{"apiVer`, `{"operation":5,"object":"x"}` + "\n"},
	"admission":  {"", `{"allowed":true,"message":"fine"}` + "\n", `{"allowed":tr`, `{"allowed":"yes"}` + "\n"},
	"conversion": {"", `{"convertedObjects":[{"apiVersion":"v2","kind":"X"}]}` + "\n", `{"convertedObj`, `{"failedMessage":7}` + "\n"},
}

var c12files = []string{"metrics", "patch", "admission", "conversion"}
var c12variants = []string{"untouched", "valid", "truncated", "wrong-type"}

var c12seenPaths = map[string]bool{}

func c12run(exit int, variant [4]int, nctx int, relTmp bool, chatter int) (sig, what, outcome string) {
	base, err := os.MkdirTemp(fxBaseDir(), "zzverif-c12-")
	if err != nil {
		panic(err)
	}
	defer os.RemoveAll(base)
	hooksDir, tmpDir, caseDir := filepath.Join(base, "hooks", "sub"), filepath.Join(base, "tmp"), filepath.Join(base, "case")
	for _, d := range []string{hooksDir, tmpDir, caseDir} {
		_ = os.MkdirAll(d, 0o755)
	}
	_ = os.WriteFile(filepath.Join(hooksDir, "hook.sh"), []byte(c12script), 0o755)
	_ = os.WriteFile(filepath.Join(caseDir, "exit"), []byte(fmt.Sprint(exit)), 0o644)
	if chatter > 0 {
		// a talkative hook (set -x, a verbose child command): what it prints decides nothing
		_ = os.WriteFile(filepath.Join(caseDir, "chatter"), []byte(fmt.Sprint(chatter)), 0o644)
	}
	for i, f := range c12files {
		if variant[i] > 0 {
			_ = os.WriteFile(filepath.Join(caseDir, f+".out"), []byte(c12contents[f][variant[i]]), 0o644)
		}
	}
	os.Setenv("C12_CASE", caseDir)
	// the operator's own environment may hold variables named like the hook's (a pod env var
	// METRICS_PATH=/metrics, an operator started from a hook of another operator): the hook gets
	// the paths of its own execution
	for _, k := range []string{"BINDING_CONTEXT_PATH", "METRICS_PATH", "KUBERNETES_PATCH_PATH", "VALIDATING_RESPONSE_PATH", "ADMISSION_RESPONSE_PATH", "CONVERSION_RESPONSE_PATH"} {
		if relTmp {
			os.Setenv(k, filepath.Join(caseDir, "foreign-"+k))
		} else {
			os.Unsetenv(k)
		}
	}
	executor.ZZStandIn = nil // real processes
	defer func() {
		if r := recover(); r != nil {
			sig, what = "C12a panic", fmt.Sprint(r)
		}
	}()
	ctx, cancel := context.WithCancel(context.Background())
	defer cancel()
	op := NewShellOperator(ctx, WithLogger(log.NewNop()))
	op.MetricStorage = vfx.NopStorage{}
	hms := newHookMetricStorage(ctx)
	op.HookMetricStorage = hms
	op.KubeClient = vfx.NewMiniCluster()
	op.ObjectPatcher = objectpatch.NewObjectPatcher(vfx.NewWireClient(op.KubeClient), log.NewNop())
	op.SetupEventManagers()
	// the temporary directory goes through the operator's own preparation step, as in Init();
	// given as a relative path (--tmp-dir=tmp) it is relative to the operator's working directory,
	// while hooks run in their own directories
	tmpArg := tmpDir
	if relTmp {
		cwd, _ := os.Getwd()
		if err := os.Chdir(base); err != nil {
			panic(err)
		}
		defer func() { _ = os.Chdir(cwd) }()
		tmpArg = "tmp"
	}
	ensured, err := utils_file.EnsureTempDirectory(tmpArg)
	if err != nil {
		return "C12a init", "temp directory: " + err.Error(), ""
	}
	op.setupHookManagers(filepath.Join(base, "hooks"), ensured)
	if err := op.initHookManager(); err != nil {
		return "C12a init", err.Error(), ""
	}
	var bcs []bindingcontext.BindingContext
	var names []string
	for i := 1; i <= nctx; i++ {
		bc := bindingcontext.BindingContext{Binding: fmt.Sprintf("s%d", i)}
		bc.Metadata.BindingType = htypes.Schedule
		bcs = append(bcs, bc)
		names = append(names, bc.Binding)
	}
	tk := task.NewTask(task_metadata.HookRun).WithMetadata(task_metadata.HookMetadata{HookName: "sub/hook.sh", BindingType: htypes.Schedule, BindingContext: bcs}).WithQueueName("main")
	res := op.taskHandler(tk)

	dump, err := os.ReadFile(filepath.Join(caseDir, "dump.1"))
	if err != nil {
		return "C12a hook-not-run", "the hook left no dump", ""
	}
	lines := strings.Split(strings.TrimSpace(string(dump)), "\n")
	if lines[0] != "cwd="+hooksDir {
		return "C12a cwd", fmt.Sprintf("hook started in %q, its directory is %s", lines[0], hooksDir), ""
	}
	if len(lines) != 7 {
		return "C12a env", "dump: " + string(dump), ""
	}
	paths := map[string]string{}
	for _, l := range lines[1:] {
		var name, p, sz string
		parts := strings.SplitN(l, "=", 2)
		name = parts[0]
		rest := strings.SplitN(parts[1], " size=", 2)
		p, sz = rest[0], rest[1]
		paths[name] = p
		if p == "" || sz == "missing" {
			return "C12a env-file-missing", fmt.Sprintf("%s=%q does not point to a file", name, p), ""
		}
		if name != "BINDING_CONTEXT_PATH" && sz != "0" {
			return "C12a output-file-not-empty", fmt.Sprintf("%s starts with %s bytes", name, sz), ""
		}
		if filepath.Dir(p) != tmpDir {
			return "C12a file-outside-tmp", l, ""
		}
	}
	if paths["VALIDATING_RESPONSE_PATH"] != paths["ADMISSION_RESPONSE_PATH"] {
		return "C12a admission-paths-differ", string(dump), ""
	}
	for name, p := range paths {
		if name == "VALIDATING_RESPONSE_PATH" {
			continue
		}
		if c12seenPaths[p] {
			return "C12a file-name-reused", fmt.Sprintf("%s=%s was used by an earlier execution", name, p), ""
		}
		c12seenPaths[p] = true
	}
	var got []map[string]any
	raw, _ := os.ReadFile(filepath.Join(caseDir, "context.1"))
	if err := json.Unmarshal(raw, &got); err != nil {
		return "C12a context-not-json-array", string(raw), ""
	}
	var gotNames []string
	for _, c := range got {
		gotNames = append(gotNames, fmt.Sprint(c["binding"]))
	}
	if strings.Join(gotNames, ",") != strings.Join(names, ",") {
		return "C12a context-content", fmt.Sprintf("hook saw contexts %v, the task holds %v", gotNames, names), ""
	}
	// outcome
	wantFail := exit != 0
	for i := range c12files {
		if variant[i] >= 2 {
			wantFail = true
		}
	}
	failed := res.Status == "Fail"
	if failed != wantFail {
		var desc []string
		for i, f := range c12files {
			desc = append(desc, f+"="+c12variants[variant[i]])
		}
		kind := "failure-not-detected"
		if failed {
			kind = "spurious-failure"
		}
		return "C12a " + kind, fmt.Sprintf("exit %d, %s: task status %s (%s)", exit, strings.Join(desc, " "), res.Status, tk.GetFailureMessage()), ""
	}
	if !failed {
		// effects of valid outputs
		if variant[1] == 1 {
			if _, err := op.KubeClient.Dynamic().Resource(cmGVR).Namespace("default").Get(ctx, "made-by-hook", metav1.GetOptions{}); err != nil {
				return "C12a patch-not-applied", err.Error(), ""
			}
		}
		if variant[0] == 1 && !hms.has("c12_metric") {
			return "C12a metrics-not-applied", "c12_metric is not in the hook metric registry", ""
		}
		if variant[2] == 1 && tk.GetProp("admissionResponse") == nil {
			return "C12a admission-response-not-stored", "", ""
		}
		if variant[3] == 1 && tk.GetProp("conversionResponse") == nil {
			return "C12a conversion-response-not-stored", "", ""
		}
	}
	left, _ := os.ReadDir(tmpDir)
	if len(left) != 0 {
		var ns []string
		for _, e := range left {
			ns = append(ns, e.Name())
		}
		return "C12a temp-files-left", fmt.Sprintf("after the execution (status %s) the temp dir holds %v", res.Status, ns), ""
	}
	runs, _ := os.ReadFile(filepath.Join(caseDir, "runs"))
	if strings.TrimSpace(string(runs)) != "1" {
		return "C12a executions", "hook executed " + string(runs) + " times for one task", ""
	}
	return "", "", fmt.Sprintf("status=%s", res.Status)
}

func TestVerifC12a(t *testing.T) {
	r := vres.New("c12a")
	defer r.Finish()
	exits := []int{0, 1, 2, 255, -9, -15} // negative: the process ends by that signal
	r.Bound("exit_codes_and_signals", exits)
	r.Bound("file_variants", c12variants)
	var ord int64
	for _, exit := range exits {
		for v := 0; v < 256; v++ {
			variant := [4]int{v & 3, (v >> 2) & 3, (v >> 4) & 3, (v >> 6) & 3}
			ord++
			if !(vres.Mine(ord) || r.Replaying()) {
				continue
			}
			nctx := int(ord%3) + 1
			relTmp := ord%5 == 2
			key := fmt.Sprintf("exit=%d|%v|ctx=%d", exit, variant, nctx)
			if relTmp {
				key += "|tmp-dir=relative"
			}
			chatter := 0
			if ord%7 == 3 {
				chatter = 200000
				key += "|stderr=200KB"
			}
			if !r.Want(key) {
				continue
			}
			sig, what, outcome := c12run(exit, variant, nctx, relTmp, chatter)
			r.Eval(1)
			r.Transition(1)
			if sig != "" {
				r.Violation(sig, key, what, nil)
				r.Outcome("V:"+sig, true)
				continue
			}
			r.State(key)
			r.Outcome(fmt.Sprintf("%s|%d|%v", outcome, exit, variant), exit != 0 || v != 0)
			r.Sample(map[string]any{"exit": exit, "files(metrics,patch,admission,conversion)": fmt.Sprint(variant), "contexts": nctx, "result": outcome})
			if r.Expired() {
				return
			}
		}
	}
}

// ---- part b ----

func TestVerifC12b(t *testing.T) {
	r := vres.New("c12b")
	defer r.Finish()
	bound := vres.Pick(2, 3)
	r.Bound("deviation_bound", bound)
	shard, shards := vres.Shard()
	type obsT struct {
		fx    *fixture
		res   [2]string
		left  []string
		seen  [2]string
		errs  [2]string
	}
	for _, outcomeKind := range []string{"ok", "first-fails", "two-hooks"} {
		outcomeKind := outcomeKind
		var obs *obsT
		body := func(x *vrt.Exec) {
			obs = &obsT{}
			hookOf := map[string]string{"sa": "h.sh", "sb": "h.sh"}
			hooks := []fxHook{{Name: "h.sh", Config: "configVersion: v1\nschedule:\n- name: sa\n  crontab: \"* * * * *\"\n  queue: qa\n- name: sb\n  crontab: \"* * * * *\"\n  queue: qb\n"}}
			if outcomeKind == "two-hooks" {
				// two different hooks whose names differ only in characters that file names are
				// cleaned of: each execution still has files of its own
				hookOf = map[string]string{"sa": "sub/hook.sh", "sb": "sub-hook.sh"}
				hooks = []fxHook{
					{Name: "sub/hook.sh", Config: "configVersion: v1\nschedule:\n- name: sa\n  crontab: \"* * * * *\"\n  queue: qa\n"},
					{Name: "sub-hook.sh", Config: "configVersion: v1\nschedule:\n- name: sb\n  crontab: \"* * * * *\"\n  queue: qb\n"},
				}
			}
			fx := newFixture(hooks)
			obs.fx = fx
			defer fx.close()
			fx.Script = func(run *fxRun) fxOutcome {
				vrt.Yield("hook-process") // the process takes a while: the other execution may run meanwhile
				who := ""
				if len(run.Contexts) == 1 {
					who, _ = run.Contexts[0]["binding"].(string)
				}
				out := fxOutcome{Metrics: `{"name":"m_` + who + `","action":"set","value":1}` + "\n", Admission: `{"allowed":true,"message":"` + who + `"}`}
				if outcomeKind == "first-fails" && who == "sa" {
					out.Exit = 1
				}
				return out
			}
			var err error
			vrt.Atomic(func() { err = fx.assemble() })
			if err != nil {
				panic(err)
			}
			done := 0
			for i, b := range []string{"sa", "sb"} {
				i, b := i, b
				vrt.GoNamed("exec-"+b, func() {
					bc := bindingcontext.BindingContext{Binding: b}
					bc.Metadata.BindingType = htypes.Schedule
					tk := task.NewTask(task_metadata.HookRun).WithMetadata(task_metadata.HookMetadata{HookName: hookOf[b], BindingType: htypes.Schedule, Binding: b, BindingContext: []bindingcontext.BindingContext{bc}}).WithQueueName("q" + b[1:])
					res := fx.op.taskHandler(tk)
					obs.res[i] = string(res.Status)
					obs.errs[i] = tk.GetFailureMessage()
					if ar, ok := tk.GetProp("admissionResponse").(interface{ Dump() string }); ok {
						obs.seen[i] = ar.Dump()
					}
					done++
				})
			}
			vrt.WaitFor("both", time.Hour, func() bool { return done == 2 })
			obs.left = fx.tmpLeft()
		}
		ex := &vrt.Explorer{Opts: vrt.Options{Bound: bound, MaxSteps: 20000}, Shard: shard, Shards: shards, Deadline: r.Deadline()}
		ex.Check = func(x *vrt.Exec) {
			key := fmt.Sprintf("%s|%v", outcomeKind, x.Choices)
			r.Eval(1)
			r.Transition(int64(x.Steps))
			if len(x.Panics) > 0 {
				r.Violation("C12b panic", key, strings.Join(x.Panics, "\n"), nil)
				return
			}
			if x.End == "deadlock" {
				r.Violation("C12b deadlock", key, strings.Join(x.Blocked, "; "), nil)
				return
			}
			want := [2]string{"Success", "Success"}
			if outcomeKind == "first-fails" {
				want[0] = "Fail"
			}
			for i, b := range []string{"sa", "sb"} {
				if obs.res[i] != want[i] {
					r.Violation("C12b execution-result", key, fmt.Sprintf("execution for %s ended %s (%s), want %s", b, obs.res[i], obs.errs[i], want[i]), nil)
					r.Outcome("V:res", true)
					return
				}
				if want[i] == "Success" && !strings.Contains(obs.seen[i], "msg="+b) {
					r.Violation("C12b foreign-output", key, fmt.Sprintf("execution for %s read back %q: not its own response file", b, obs.seen[i]), nil)
					r.Outcome("V:foreign", true)
					return
				}
			}
			for _, run := range obs.fx.Runs {
				if run.FilesOK != "" {
					r.Violation("C12b prepared-files", key, run.FilesOK, nil)
					return
				}
			}
			if len(obs.left) != 0 {
				r.Violation("C12b temp-files-left", key, fmt.Sprintf("temp dir holds %v after both executions", obs.left), nil)
				r.Outcome("V:left", true)
				return
			}
			oc := fmt.Sprintf("%s|%v|%v", outcomeKind, obs.res, obs.seen)
			r.State(fmt.Sprint(x.Choices))
			r.Outcome(oc, x.Devs() > 0)
			if x.Devs() > 0 {
				r.Sample(map[string]any{"variant": outcomeKind, "choices": fmt.Sprint(x.Choices), "results": obs.res})
			}
		}
		if r.Replaying() {
			parts := strings.SplitN(r.OnlyCase(), "|", 2)
			if len(parts) != 2 || parts[0] != outcomeKind {
				continue
			}
			var choices []int
			for _, f := range strings.Fields(strings.Trim(parts[1], "[]")) {
				var v int
				fmt.Sscan(f, &v)
				choices = append(choices, v)
			}
			opts := ex.Opts
			ex.Check(vrt.Run(&opts, choices, nil, body))
			continue
		}
		ex.Explore(body)
		r.Count("executions:"+outcomeKind, ex.Stats.Executions)
		if ex.Stats.Capped != "" {
			r.Cap(outcomeKind + ":" + ex.Stats.Capped)
		}
	}
}
