package shell_operator

// C09, combined arrays — the quantifier names "all combined arrays of contexts". One hook has a
// kubernetes binding and a schedule binding that share a NAME (names are unique per binding
// kind only) and include different snapshots. An Event and a tick are queued while an
// execution of the hook is in progress, so that the next execution is given both contexts in
// one array: every item carries the snapshots its own binding includes.

import (
	"context"
	"fmt"
	"sort"
	"strings"
	"time"

	metav1 "k8s.io/apimachinery/pkg/apis/meta/v1"

	kubeeventsmanager "github.com/flant/shell-operator/pkg/kube_events_manager"
	schedulemanager "github.com/flant/shell-operator/pkg/schedule_manager"
	"github.com/flant/shell-operator/pkg/zzverif/vrt"
)

const c09combConfig = `configVersion: v1
kubernetes:
- name: same
  kind: ConfigMap
  includeSnapshotsFrom: [same]
  namespace: {nameSelector: {matchNames: [n1]}}
- name: other
  kind: ConfigMap
  namespace: {nameSelector: {matchNames: [n2]}}
schedule:
- name: same
  crontab: "* * * * *"
  includeSnapshotsFrom: [other]
`

func c09runCombined() (sig, what string) {
	opts := vrt.Options{Bound: 0, MaxSteps: 200000, DelayBound: true}
	var notes []string
	var combined []map[string]any
	x := vrt.Run(&opts, nil, nil, func(x *vrt.Exec) {
		fx := newFixture([]fxHook{{Name: "h.sh", Config: c09combConfig}})
		defer fx.close()
		hub := &kubeeventsmanager.ZZHub{}
		kubeeventsmanager.ZZInstallHub(hub)
		defer kubeeventsmanager.ZZInstallHub(nil)
		fx.withCluster()
		ctx := context.Background()
		dyn := fx.op.KubeClient.Dynamic()
		for _, ns := range []string{"n1", "n2"} {
			if _, err := dyn.Resource(cmGVR).Namespace(ns).Create(ctx, cmObj(ns, "a", 0), metav1.CreateOptions{}); err != nil {
				panic(err)
			}
		}
		holdNext, held, released := false, 0, false
		fx.Script = func(run *fxRun) fxOutcome {
			if holdNext {
				holdNext = false
				held++
				return fxOutcome{Block: func() bool { return released }}
			}
			return fxOutcome{}
		}
		if err := fx.assemble(); err != nil {
			notes = append(notes, "config rejected: "+err.Error())
			return
		}
		fx.start()
		quiet := func() bool {
			if hub.Pending() || hub.Busy != 0 || len(fx.op.KubeEventsManager.Ch()) != 0 {
				return false
			}
			q := fx.op.TaskQueues.GetMain()
			return q != nil && q.IsEmpty() && idle(fx, "main")
		}
		if !vrt.WaitFor("startup", 30*time.Minute, func() bool { return quiet() && len(fx.Runs) >= 2 && schedulemanager.ZZJobs(fx.op.ScheduleManager) >= 1 }) {
			notes = append(notes, "startup did not finish")
			return
		}
		change := func(ver int) {
			old, _ := dyn.Resource(cmGVR).Namespace("n1").Get(ctx, "a", metav1.GetOptions{})
			ob := cmObj("n1", "a", ver)
			_, _ = dyn.Resource(cmGVR).Namespace("n1").Update(ctx, ob, metav1.UpdateOptions{})
			hub.Notify(cmGVR, "update", old, ob)
		}
		holdNext = true
		change(1)
		if !vrt.WaitFor("execution-in-progress", 10*time.Minute, func() bool { return held > 0 }) {
			notes = append(notes, "no execution started for the first change")
			return
		}
		before := len(fx.Runs)
		change(2)
		schedulemanager.ZZRunJobs(fx.op.ScheduleManager)
		// both tasks wait behind the execution in progress
		if !vrt.WaitFor("two-tasks-queued", 10*time.Minute, func() bool { return fx.op.TaskQueues.GetMain().Length() >= 3 }) {
			notes = append(notes, fmt.Sprintf("the Event and the Schedule task did not both get queued (main holds %d tasks)", fx.op.TaskQueues.GetMain().Length()))
			released = true
			return
		}
		released = true
		vrt.WaitFor("settle", 10*time.Minute, func() bool { return quiet() && len(fx.Runs) > before })
		for _, r := range fx.Runs[before:] {
			if len(r.Contexts) >= 2 {
				combined = r.Contexts
			}
		}
		if combined == nil {
			notes = append(notes, "no execution was given both contexts: "+c03runs(fx))
		}
	})
	if len(x.Panics) > 0 {
		return "C09 panic scenario=combined", strings.Join(x.Panics, "\n")
	}
	if len(notes) > 0 {
		return "C09 scenario combined", strings.Join(notes, "; ")
	}
	for i, c := range combined {
		want := ""
		switch c["type"] {
		case "Event":
			want = "same"
		case "Schedule":
			want = "other"
		default:
			return "C09 combined-array unexpected-item", fmt.Sprintf("item %d: %v", i, c)
		}
		if c["binding"] != "same" {
			return "C09 combined-array binding", fmt.Sprintf("item %d has binding %v", i, c["binding"])
		}
		sn, _ := c["snapshots"].(map[string]any)
		var keys []string
		for k := range sn {
			keys = append(keys, k)
		}
		sort.Strings(keys)
		if strings.Join(keys, ",") != want {
			return "C09 combined-array snapshots-of-another-binding", fmt.Sprintf("item %d (%v of binding 'same') carries snapshots %v, its binding includes [%s]", i, c["type"], keys, want)
		}
	}
	return "", ""
}
