package shell_operator

// C02 part c — inside one execution the snapshot of a binding is identical everywhere it
// appears, and the keys of `snapshots` are exactly the declared ones.
// A hook whose contexts mention one binding several times (Synchronization objects plus a
// self-include; two bindings of one group; a binding including another one) runs in the real
// operator while an informer delivers an Added concurrently. The scheduler explores all
// interleavings (bounded) of the deliveries with the hook run's snapshot reads: exploration is
// switched on exactly while a Synchronization / Group task of the hook is being handled.

import (
	"context"
	"encoding/json"
	"fmt"
	"sort"
	"strings"
	"testing"
	"time"

	metav1 "k8s.io/apimachinery/pkg/apis/meta/v1"

	"github.com/flant/shell-operator/pkg/hook/task_metadata"
	kubeeventsmanager "github.com/flant/shell-operator/pkg/kube_events_manager"
	"github.com/flant/shell-operator/pkg/task"
	"github.com/flant/shell-operator/pkg/zzverif/vres"
	"github.com/flant/shell-operator/pkg/zzverif/vrt"
)

var c02cConfigs = map[string]struct {
	yaml string
	keys map[string]string // binding -> expected snapshots keys ("" = no snapshots field)
}{
	"self-include": {"configVersion: v1\nkubernetes:\n- name: kb\n  kind: ConfigMap\n  namespace: {nameSelector: {matchNames: [n1]}}\n  includeSnapshotsFrom: [kb]\n- name: k2\n  kind: ConfigMap\n  namespace: {nameSelector: {matchNames: [n1]}}\n  includeSnapshotsFrom: [kb, k2]\n",
		map[string]string{"kb": "kb", "k2": "k2,kb"}},
	"group": {"configVersion: v1\nkubernetes:\n- name: kb\n  kind: ConfigMap\n  group: g\n  namespace: {nameSelector: {matchNames: [n1]}}\n- name: k2\n  kind: ConfigMap\n  group: g\n  namespace: {nameSelector: {matchNames: [n1]}}\n- name: k3\n  kind: ConfigMap\n  namespace: {nameSelector: {matchNames: [n1]}}\n  includeSnapshotsFrom: [kb]\n",
		map[string]string{"kb": "k2,kb", "k2": "k2,kb", "k3": "kb"}},
}

func TestVerifC02c(t *testing.T) {
	r := vres.New("c02c")
	defer r.Finish()
	bound := vres.Pick(2, 3)
	r.Bound("deviation_bound", bound)
	shard, shards := vres.Shard()
	var variants []string
	for k := range c02cConfigs {
		variants = append(variants, k)
	}
	sort.Strings(variants)
	for _, variant := range variants {
		for _, initial := range []int{0, 1} {
			variant, initial := variant, initial
			cfg := c02cConfigs[variant]
			var fxr *fixture
			var settled bool
			body := func(x *vrt.Exec) {
				fx := newFixture([]fxHook{{Name: "h.sh", Config: cfg.yaml}})
				fxr = fx
				defer fx.close()
				hub := &kubeeventsmanager.ZZHub{}
				kubeeventsmanager.ZZInstallHub(hub)
				defer kubeeventsmanager.ZZInstallHub(nil)
				fx.withCluster()
				ctx := context.Background()
				dyn := fx.op.KubeClient.Dynamic()
				for i := 0; i < initial; i++ {
					_, _ = dyn.Resource(cmGVR).Namespace("n1").Create(ctx, cmObj("n1", fmt.Sprintf("pre%d", i), 0), metav1.CreateOptions{})
				}
				window := 0
				isSync := func(t task.Task) bool {
					if t == nil || t.GetType() != task_metadata.HookRun {
						return false
					}
					hm := task_metadata.HookMetadataAccessor(t)
					return hm.IsSynchronization() || hm.Group != ""
				}
				created := false
				fx.OnTaskBegin = func(_ string, t task.Task) {
					if isSync(t) {
						window++
						if !created {
							// a new object appears just as the hook run starts: its Added is delivered
							// by the informer thread somewhere during the run
							created = true
							ob := cmObj("n1", "late", 1)
							_, _ = dyn.Resource(cmGVR).Namespace("n1").Create(ctx, ob, metav1.CreateOptions{})
							hub.Notify(cmGVR, "add", nil, ob)
						}
						vrt.Exploring(true)
					}
				}
				fx.OnTaskEnd = func(_ string, t task.Task) {
					if isSync(t) {
						vrt.Exploring(false)
					}
				}
				vrt.Exploring(false)
				var err error
				vrt.Atomic(func() { err = fx.assemble() })
				if err != nil {
					panic(err)
				}
				fx.start()
				settled = vrt.WaitFor("startup", 30*time.Minute, func() bool {
					q := fx.op.TaskQueues.GetMain()
					return q != nil && q.IsEmpty() && idle(fx, "main") && len(fx.Runs) >= 1 && !hub.Pending() && hub.Busy == 0 && len(fx.op.KubeEventsManager.Ch()) == 0
				})
			}
			name := fmt.Sprintf("%s/initial=%d", variant, initial)
			ex := &vrt.Explorer{Opts: vrt.Options{Bound: bound, MaxSteps: 100000, DelayBound: true}, Shard: shard, Shards: shards, Deadline: r.Deadline()}
			ex.Check = func(x *vrt.Exec) {
				key := fmt.Sprintf("%s|%v", name, x.Choices)
				r.Eval(1)
				r.Transition(int64(x.Steps))
				if len(x.Panics) > 0 {
					r.Violation("C02c panic", key, strings.Join(x.Panics, "\n"), nil)
					return
				}
				if !settled {
					r.Violation("C02c not-settled", key, x.End+" "+strings.Join(x.Blocked, ";"), nil)
					return
				}
				var sum []string
				for _, run := range fxr.Runs {
					views := map[string]map[string]bool{} // binding -> set of renderings seen in this execution
					see := func(b string, v any) {
						j, _ := json.Marshal(v)
						if views[b] == nil {
							views[b] = map[string]bool{}
						}
						views[b][string(j)] = true
					}
					for _, c := range run.Contexts {
						b, _ := c["binding"].(string)
						if c["type"] == "Synchronization" {
							see(b, c["objects"])
						}
						wantKeys, declared := cfg.keys[b]
						if sn, ok := c["snapshots"].(map[string]any); ok {
							if declared && strings.Join(keysOf(sn), ",") != wantKeys {
								r.Violation("C02c snapshots-keys", key, fmt.Sprintf("binding %s: snapshots keys %v, want %s", b, keysOf(sn), wantKeys), nil)
								r.Outcome("V:keys", true)
								return
							}
							for k, v := range sn {
								see(k, v)
							}
						} else if declared && wantKeys != "" {
							r.Violation("C02c snapshots-missing", key, fmt.Sprintf("binding %s (%v) has no snapshots", b, c["type"]), nil)
							return
						}
					}
					for b, vs := range views {
						if len(vs) > 1 {
							var l []string
							for v := range vs {
								if len(v) > 160 {
									v = v[:160] + "..."
								}
								l = append(l, v)
							}
							sort.Strings(l)
							r.Violation("C02c inconsistent-snapshot-in-one-execution", key, fmt.Sprintf("execution with contexts %s shows binding %s in %d different states: %s", c03runs(&fixture{Runs: []*fxRun{run}}), b, len(vs), strings.Join(l, "  VS  ")), nil)
							r.Outcome("V:inconsistent", true)
							return
						}
					}
					sum = append(sum, fmt.Sprintf("%d", len(views)))
				}
				oc := name + "|" + c03runs(fxr) + "|" + strings.Join(sum, ",")
				r.State(oc)
				r.Outcome(oc, x.Devs() > 0)
				if x.Devs() > 0 {
					r.Sample(map[string]any{"variant": name, "choices": fmt.Sprint(x.Choices), "executions": c03runs(fxr)})
				}
			}
			if r.Replaying() {
				parts := strings.SplitN(r.OnlyCase(), "|", 2)
				if len(parts) != 2 || parts[0] != name {
					continue
				}
				var choices []int
				for _, f := range strings.Fields(strings.Trim(parts[1], "[]")) {
					var v int
					fmt.Sscan(f, &v)
					choices = append(choices, v)
				}
				opts := ex.Opts
				ex.Check(vrt.Run(&opts, choices, nil, body))
				continue
			}
			ex.Explore(body)
			r.Count("executions:"+name, ex.Stats.Executions)
			if ex.Stats.Capped != "" {
				r.Cap(name + ":" + ex.Stats.Capped)
			}
		}
	}
}
