package metricstorage

// C16 — hook metrics: validated as a batch; grouped metrics replaced, not accumulated.
// Every sequence of batches (each 1..k operation documents from a small alphabet, written as the
// JSON a hook would write and parsed by the real MetricOperationsFromBytes) from two hooks is
// sent through the real SendBatch on a MetricStorage with its own registry; after every
// batch the full Gather() output is compared with a reference registry written from the
// statement.

import (
	"encoding/json"
	"bytes"
	"context"
	"fmt"
	"sort"
	"strings"
	"testing"

	"github.com/deckhouse/deckhouse/pkg/log"
	dto "github.com/prometheus/client_model/go"

	"github.com/flant/shell-operator/pkg/metric_storage/operation"
	"github.com/flant/shell-operator/pkg/zzverif/vres"
)

func init() { log.SetDefault(log.NewNop()) }

type c16op struct {
	id      string
	json    string
	invalid bool
	// reference view
	group  string
	name   string
	action string // add set observe expire
	value  float64
	labels map[string]string
}

func c16alphabet() []c16op {
	L := func(kv ...string) map[string]string {
		m := map[string]string{}
		for i := 0; i+1 < len(kv); i += 2 {
			m[kv[i]] = kv[i+1]
		}
		return m
	}
	return []c16op{
		{id: "U1", json: `{"name":"um","action":"add","value":1,"labels":{"a":"1"}}`, name: "um", action: "add", value: 1, labels: L("a", "1")},
		{id: "U2", json: `{"name":"um","add":0.5,"labels":{"a":"1"}}`, name: "um", action: "add", value: 0.5, labels: L("a", "1")},
		{id: "U3", json: `{"name":"un","action":"set","value":2,"labels":{}}`, name: "un", action: "set", value: 2, labels: L()},
		{id: "U4", json: `{"name":"un2","set":1.5,"labels":{"a":"1","b":"2"}}`, name: "un2", action: "set", value: 1.5, labels: L("a", "1", "b", "2")},
		{id: "U5", json: `{"name":"uh","action":"observe","value":0.5,"buckets":[1,2],"labels":{"a":"1"}}`, name: "uh", action: "observe", value: 0.5, labels: L("a", "1")},
		{id: "G1", json: `{"group":"g1","name":"gm","action":"set","value":1,"labels":{"a":"1"}}`, group: "g1", name: "gm", action: "set", value: 1, labels: L("a", "1")},
		{id: "G2", json: `{"group":"g1","name":"gm","action":"set","value":2,"labels":{"a":"2"}}`, group: "g1", name: "gm", action: "set", value: 2, labels: L("a", "2")},
		{id: "G3", json: `{"group":"g1","name":"gc","action":"add","value":1,"labels":{}}`, group: "g1", name: "gc", action: "add", value: 1, labels: L()},
		{id: "G4", json: `{"group":"g1","name":"gc","add":2,"labels":{}}`, group: "g1", name: "gc", action: "add", value: 2, labels: L()},
		{id: "G5", json: `{"group":"g1","name":"gc","action":"add","value":0.5,"labels":{}}`, group: "g1", name: "gc", action: "add", value: 0.5, labels: L()},
		{id: "G6", json: `{"group":"g2","name":"gm","action":"set","value":7,"labels":{"a":"3"}}`, group: "g2", name: "gm", action: "set", value: 7, labels: L("a", "3")},
		{id: "G7", json: `{"group":"g1","action":"expire"}`, group: "g1", action: "expire"},
		{id: "G8", json: `{"group":"g2","name":"gm2","set":3,"labels":{"a":"1","b":"2"}}`, group: "g2", name: "gm2", action: "set", value: 3, labels: L("a", "1", "b", "2")},
		{id: "G9", json: `{"group":"g1","name":"gm","action":"set","value":5,"labels":{"a":"1","b":"2"}}`, group: "g1", name: "gm", action: "set", value: 5, labels: L("a", "1", "b", "2")},
		{id: "G10", json: `{"group":"g2","name":"un","action":"set","value":4,"labels":{"c":"1"}}`, group: "g2", name: "un", action: "set", value: 4, labels: L("c", "1")},
		// a label with an empty value (an optional field through jq) on a name other operations use with that label set
		{id: "U6", json: `{"name":"un2","set":2.5,"labels":{"a":"1","b":""}}`, name: "un2", action: "set", value: 2.5, labels: L("a", "1", "b", "")},
		// a grouped metric whose name uses the {PREFIX} template (the storage has the prefix pfx_)
		{id: "G11", json: `{"group":"g1","name":"{PREFIX}gp","action":"set","value":1,"labels":{"a":"1"}}`, group: "g1", name: "pfx_gp", action: "set", value: 1, labels: L("a", "1")},
		{id: "G12", json: `{"group":"g1","name":"{PREFIX}gpc","add":2,"labels":{}}`, group: "g1", name: "pfx_gpc", action: "add", value: 2, labels: L()},
		// two series whose label values differ only in where a non-ASCII letter stands (L'Haÿ / les-Roses):
		// series are told apart by their label VALUES, whatever characters these hold
		{id: "G13", json: `{"group":"g1","name":"gy","action":"set","value":1,"labels":{"a":"xÿ","b":"y"}}`, group: "g1", name: "gy", action: "set", value: 1, labels: L("a", "xÿ", "b", "y")},
		{id: "G14", json: `{"group":"g1","name":"gy","action":"set","value":2,"labels":{"a":"x","b":"ÿy"}}`, group: "g1", name: "gy", action: "set", value: 2, labels: L("a", "x", "b", "ÿy")},
		{id: "I1", json: `{"name":"um","value":1}`, invalid: true},
		{id: "I2", json: `{"group":"g1","name":"gm","action":"observe","value":1,"buckets":[1]}`, invalid: true},
		{id: "I3", json: `{"name":"un","action":"set"}`, invalid: true},
		{id: "I4", json: `{"name":"um","add":1,"set":1}`, invalid: true},
		{id: "I5", json: `{"action":"add","value":1}`, invalid: true},
		{id: "I6", json: `{"group":"g2","action":"set","value":1}`, invalid: true},
		// text that is not a JSON value at all: a stray closing bracket
		{id: "I7", json: `}`, invalid: true},
		{id: "I8", json: `]`, invalid: true},
	}
}

// ---- reference registry ----

type c16series struct {
	name   string
	typ    string // counter gauge histogram
	labels string // canonical k=v,...
	value  float64
	count  uint64
}

type c16ref struct {
	ungrouped map[string]*c16series            // key name|labels
	grouped   map[string]map[string]*c16series // group -> key -> series
	// collide switches on the model of a recorded finding (known_findings.json): a metric
	// name belongs to whichever kind (grouped / ungrouped) used it first; operations of the
	// other kind on that name are silently dropped. Used only to recognise that finding.
	collide bool
	owner   map[string]string
}

func newC16ref() *c16ref {
	return &c16ref{ungrouped: map[string]*c16series{}, grouped: map[string]map[string]*c16series{}, owner: map[string]string{}}
}

func (r *c16ref) dropped(o c16op) bool {
	if !r.collide || o.action == "expire" {
		return false
	}
	kind := "ungrouped"
	if o.group != "" {
		kind = "grouped"
	}
	if r.owner[o.name] == "" {
		r.owner[o.name] = kind
	}
	return r.owner[o.name] != kind
}

func c16labels(l map[string]string, hook string) string {
	m := map[string]string{"hook": hook}
	for k, v := range l {
		if v == "" {
			continue // a label with an empty value is the same as no label (exposition format)
		}
		m[k] = v
	}
	ks := make([]string, 0, len(m))
	for k := range m {
		ks = append(ks, k)
	}
	sort.Strings(ks)
	var p []string
	for _, k := range ks {
		p = append(p, k+"="+m[k])
	}
	return strings.Join(p, ",")
}

func (r *c16ref) apply(batch []c16op, hook string) {
	groups := map[string]bool{}
	for _, o := range batch {
		if o.group != "" && !groups[o.group] {
			groups[o.group] = true
			r.grouped[o.group] = map[string]*c16series{}
		}
	}
	// the storage applies the grouped operations of a batch before the ungrouped ones
	var ordered []c16op
	for _, o := range batch {
		if o.group != "" {
			ordered = append(ordered, o)
		}
	}
	for _, o := range batch {
		if o.group == "" {
			ordered = append(ordered, o)
		}
	}
	for _, o := range ordered {
		if r.dropped(o) {
			continue
		}
		ls := c16labels(o.labels, hook)
		key := o.name + "|" + ls
		if o.group != "" {
			g := r.grouped[o.group]
			switch o.action {
			case "expire":
				r.grouped[o.group] = map[string]*c16series{}
			case "set":
				g[key] = &c16series{name: o.name, typ: "gauge", labels: ls, value: o.value}
			case "add":
				if s, ok := g[key]; ok {
					s.value += o.value
				} else {
					g[key] = &c16series{name: o.name, typ: "counter", labels: ls, value: o.value}
				}
			}
			continue
		}
		switch o.action {
		case "set":
			r.ungrouped[key] = &c16series{name: o.name, typ: "gauge", labels: ls, value: o.value}
		case "add":
			if s, ok := r.ungrouped[key]; ok {
				s.value += o.value
			} else {
				r.ungrouped[key] = &c16series{name: o.name, typ: "counter", labels: ls, value: o.value}
			}
		case "observe":
			if s, ok := r.ungrouped[key]; ok {
				s.value += o.value
				s.count++
			} else {
				r.ungrouped[key] = &c16series{name: o.name, typ: "histogram", labels: ls, value: o.value, count: 1}
			}
		}
	}
}

func (r *c16ref) dump() []string {
	var out []string
	add := func(s *c16series) {
		if s.typ == "histogram" {
			out = append(out, fmt.Sprintf("%s{%s} histogram count=%d sum=%g", s.name, s.labels, s.count, s.value))
		} else {
			out = append(out, fmt.Sprintf("%s{%s} %s %g", s.name, s.labels, s.typ, s.value))
		}
	}
	for _, s := range r.ungrouped {
		add(s)
	}
	for _, g := range r.grouped {
		for _, s := range g {
			add(s)
		}
	}
	sort.Strings(out)
	return out
}

func c16gather(m *MetricStorage) ([]string, error) {
	fams, err := m.Gatherer.Gather()
	if err != nil {
		return nil, err
	}
	var out []string
	for _, f := range fams {
		for _, mt := range f.GetMetric() {
			var ls []string
			for _, lp := range mt.GetLabel() {
				if lp.GetValue() == "" {
					continue // a label that a series does not carry is exposed as empty
				}
				ls = append(ls, lp.GetName()+"="+lp.GetValue())
			}
			sort.Strings(ls)
			switch f.GetType() {
			case dto.MetricType_COUNTER:
				out = append(out, fmt.Sprintf("%s{%s} counter %g", f.GetName(), strings.Join(ls, ","), mt.GetCounter().GetValue()))
			case dto.MetricType_GAUGE:
				out = append(out, fmt.Sprintf("%s{%s} gauge %g", f.GetName(), strings.Join(ls, ","), mt.GetGauge().GetValue()))
			case dto.MetricType_HISTOGRAM:
				out = append(out, fmt.Sprintf("%s{%s} histogram count=%d sum=%g", f.GetName(), strings.Join(ls, ","), mt.GetHistogram().GetSampleCount(), mt.GetHistogram().GetSampleSum()))
			}
		}
	}
	sort.Strings(out)
	return out, nil
}

type c16batch struct {
	hook string
	ops  []c16op
}

func (b c16batch) String() string {
	ids := make([]string, len(b.ops))
	for i, o := range b.ops {
		ids[i] = o.id
	}
	return b.hook + ":" + strings.Join(ids, "+")
}

// c16classify names the feature of the batch history that the failing comparison involves;
// it is used only to give violations a stable signature.
func c16classify(hist []c16batch) string {
	seen := map[string]bool{}
	for _, b := range hist {
		for _, o := range b.ops {
			seen[o.id] = true
		}
	}
	var tags []string
	if seen["G4"] {
		tags = append(tags, "grouped-add-shortcut")
	}
	if seen["G8"] {
		tags = append(tags, "grouped-set-shortcut")
	}
	if seen["G5"] || seen["G4"] && false {
		tags = append(tags, "grouped-fractional-add")
	}
	if seen["G9"] && (seen["G1"] || seen["G2"] || seen["G6"]) {
		tags = append(tags, "grouped-label-set-grows")
	}
	if len(tags) == 0 {
		return "plain"
	}
	return strings.Join(tags, "+")
}

func c16run(hist []c16batch) (sig, what, outcome string) {
	m := NewMetricStorage(context.Background(), "pfx_", true, log.NewNop())
	ref := newC16ref()
	alt := newC16ref()
	alt.collide = true
	defer func() {
		if r := recover(); r != nil {
			sig, what = "C16 panic", fmt.Sprint(r)
		}
	}()
	for i, b := range hist {
		var text strings.Builder
		invalid := false
		// the metrics file is a stream of JSON values: one per line, several on one line and
		// values spread over several lines (jq's default output) are the same batch
		layout := (i + len(hist) + len(b.ops)) % 3
		for _, o := range b.ops {
			switch layout {
			case 1:
				text.WriteString(o.json + " ")
			case 2:
				var ind bytes.Buffer
				if json.Indent(&ind, []byte(o.json), "", "  ") == nil {
					text.WriteString(ind.String() + "\n")
				} else {
					text.WriteString(o.json + "\n")
				}
			default:
				text.WriteString(o.json + "\n")
			}
			invalid = invalid || o.invalid
		}
		before, _ := c16gather(m)
		ops, perr := operation.MetricOperationsFromBytes([]byte(text.String()))
		var err error
		if perr != nil {
			err = perr
		} else {
			err = m.SendBatch(ops, map[string]string{"hook": b.hook})
		}
		after, gerr := c16gather(m)
		if gerr != nil {
			return "C16 gather-error " + c16classify(hist[:i+1]), fmt.Sprintf("after batch %d (%s) the registry cannot be gathered: %v", i, b, gerr), ""
		}
		if invalid {
			if err == nil {
				return "C16 invalid-batch-accepted", fmt.Sprintf("batch %d (%s) holds an invalid operation but was accepted", i, b), ""
			}
			if strings.Join(before, "\n") != strings.Join(after, "\n") {
				return "C16 invalid-batch-partially-applied", fmt.Sprintf("batch %d (%s) was rejected but changed the registry:\nbefore %v\nafter  %v", i, b, before, after), ""
			}
			continue
		}
		if err != nil {
			return "C16 valid-batch-rejected", fmt.Sprintf("batch %d (%s): %v", i, b, err), ""
		}
		ref.apply(b.ops, b.hook)
		alt.apply(b.ops, b.hook)
		want := ref.dump()
		if strings.Join(want, "\n") != strings.Join(after, "\n") {
			if strings.Join(alt.dump(), "\n") == strings.Join(after, "\n") {
				return "C16 registry name-used-grouped-and-ungrouped", fmt.Sprintf("after batch %d of %v the registry shows\n  %v\nwant\n  %v\n(the series of the kind that used the name second are dropped)", i, hist[:i+1], after, want), ""
			}
			return "C16 registry " + c16classify(hist[:i+1]), fmt.Sprintf("after batch %d of %v the registry shows\n  %v\nwant\n  %v", i, hist[:i+1], after, want), ""
		}
	}
	return "", "", strings.Join(ref.dump(), ";")
}

func c16index(alpha []c16op, id string) int {
	for i, o := range alpha {
		if o.id == id {
			return i
		}
	}
	panic("c16: no operation " + id)
}

func TestVerifC16(t *testing.T) {
	r := vres.New("c16")
	defer r.Finish()
	alpha := c16alphabet()
	// batches: all single ops, all ordered pairs (quick: pairs from a covering subset)
	var batches [][]c16op
	for _, o := range alpha {
		batches = append(batches, []c16op{o})
	}
	for i, a := range alpha {
		for j, b := range alpha {
			if !vres.Thorough() && !((i+j)%3 == 0 || a.group != "" && a.group == b.group) {
				continue
			}
			batches = append(batches, []c16op{a, b})
		}
	}
	if vres.Thorough() {
		for _, a := range alpha {
			for _, b := range alpha {
				for _, c := range alpha {
					if a.group != "" && (a.group == b.group || a.group == c.group) && !a.invalid {
						batches = append(batches, []c16op{a, b, c})
					}
				}
			}
		}
	}
	depth := 2
	r.Bound("op_alphabet", len(alpha))
	r.Bound("distinct_batches", len(batches))
	r.Bound("batches_per_history", depth)
	r.Bound("hooks", 2)
	var ord int64
	hooks := []string{"h1", "h2"}
	eval := func(hist []c16batch) {
		ord++
		if !(vres.Mine(ord) || r.Replaying()) {
			return
		}
		names := make([]string, len(hist))
		for i, b := range hist {
			names[i] = b.String()
		}
		key := strings.Join(names, " ; ")
		if !r.Want(key) {
			return
		}
		sig, what, outcome := c16run(hist)
		r.Eval(1)
		r.Transition(int64(len(hist)))
		if sig != "" {
			r.Violation(sig, key, what, nil)
			r.Outcome("V:"+sig, true)
			return
		}
		r.State(outcome)
		r.Outcome(outcome, len(hist) > 1)
		r.Sample(map[string]any{"batches": names, "registry": outcome})
	}
	for _, b1 := range batches {
		eval([]c16batch{{"h1", b1}})
	}
	// second batch: every single-op and (thorough) every batch, from the same or the other hook
	second := batches
	if !vres.Thorough() {
		second = batches[:len(alpha)]
		for i := len(alpha); i < len(batches); i += 5 {
			second = append(second, batches[i])
		}
	}
	for _, b1 := range batches {
		if r.Expired() {
			break
		}
		for _, b2 := range second {
			for _, h2 := range hooks {
				eval([]c16batch{{"h1", b1}, {h2, b2}})
			}
		}
	}
	// batches in which the operations of one group are not next to each other (a hook that walks over
	// objects and reports two groups per object): A, x, A with x of another group or of no group -
	// alone and after a batch that left series of that group behind
	for _, a := range alpha {
		for _, b := range alpha {
			for _, c := range alpha {
				if a.group == "" || a.group != c.group || b.group == a.group || a.invalid || b.invalid || c.invalid {
					continue
				}
				il := []c16op{a, b, c}
				eval([]c16batch{{"h1", il}})
				if !r.Expired() {
					eval([]c16batch{{"h1", []c16op{alpha[c16index(alpha, "G2")]}}, {"h1", il}})
					eval([]c16batch{{"h2", []c16op{alpha[c16index(alpha, "G6")]}}, {"h1", il}})
				}
			}
		}
	}
	if vres.Thorough() {
		// depth 3 with single-op batches
		for _, a := range alpha {
			for _, b := range alpha {
				for _, c := range alpha {
					for _, h := range hooks {
						eval([]c16batch{{"h1", []c16op{a}}, {h, []c16op{b}}, {"h1", []c16op{c}}})
					}
				}
			}
			if r.Expired() {
				break
			}
		}
	}
}
