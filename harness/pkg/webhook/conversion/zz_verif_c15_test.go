package conversion

// C15 part a — a valid conversion chain is found iff one exists.
// Every rule set up to a size over versions {v1, v1beta1, v2, v3} spelled short or with a
// group (plus a foreign group) is loaded into a real ChainStorage; every (from,to) query in
// every spelling (one group: a CRD has one) is asked on a fresh storage and on one whose cache was filled by the other
// queries (forward and backward order), under three controlled map iteration orders (the
// search ranges over maps; chain.go is built with its map ranges routed through vrt.Keys).
// Reference: breadth-first reachability over the declared rules with pairwise version
// matching, written from the statement.

import (
	"fmt"
	"os"
	"sort"
	"strings"
	"testing"

	"github.com/deckhouse/deckhouse/pkg/log"

	"github.com/flant/shell-operator/pkg/zzverif/vres"
	"github.com/flant/shell-operator/pkg/zzverif/vrt"
)

func init() { log.SetDefault(log.NewNop()) }

func c15short(v string) string {
	if i := strings.IndexByte(v, '/'); i >= 0 {
		return v[i+1:]
	}
	return v
}

// c15same: the same version, written with or without its group.
func c15same(a, b string) bool {
	if a == b {
		return true
	}
	ga, gb := strings.Contains(a, "/"), strings.Contains(b, "/")
	if ga && gb {
		return false
	}
	return c15short(a) == c15short(b)
}

func c15reachable(rules []Rule, from, to string) bool {
	// BFS over rules: state = index of the last rule taken
	seen := make([]bool, len(rules))
	var frontier []int
	for i, r := range rules {
		if c15same(from, r.FromVersion) {
			seen[i] = true
			frontier = append(frontier, i)
		}
	}
	for len(frontier) > 0 {
		i := frontier[0]
		frontier = frontier[1:]
		if c15same(rules[i].ToVersion, to) {
			return true
		}
		for j, r := range rules {
			if !seen[j] && c15same(rules[i].ToVersion, r.FromVersion) {
				seen[j] = true
				frontier = append(frontier, j)
			}
		}
	}
	return false
}

func c15validChain(rules []Rule, chain []Rule, from, to string) string {
	decl := map[Rule]bool{}
	for _, r := range rules {
		decl[r] = true
	}
	for i, r := range chain {
		if !decl[r] {
			return fmt.Sprintf("step %d (%s) is not a declared rule", i, r)
		}
		if i > 0 && !c15same(chain[i-1].ToVersion, r.FromVersion) {
			return fmt.Sprintf("step %d (%s) does not start where step %d (%s) ended", i, r, i-1, chain[i-1])
		}
	}
	if !c15same(from, chain[0].FromVersion) {
		return fmt.Sprintf("chain starts at %s, request starts at %s", chain[0].FromVersion, from)
	}
	if !c15same(chain[len(chain)-1].ToVersion, to) {
		return fmt.Sprintf("chain ends at %s, request wants %s", chain[len(chain)-1].ToVersion, to)
	}
	return ""
}

func c15universe(full bool) (rules []Rule, queries []Rule) {
	vers := []string{"v1", "v1beta1", "v2", "v3"}
	spell := func(v string) []string {
		if full {
			return []string{v, "g/" + v}
		}
		return []string{v}
	}
	for _, a := range vers {
		for _, b := range vers {
			if a == b {
				continue
			}
			for _, sa := range spell(a) {
				for _, sb := range spell(b) {
					rules = append(rules, Rule{sa, sb})
				}
			}
		}
	}
	for _, a := range vers {
		for _, b := range vers {
			if a == b {
				continue
			}
			for _, sa := range []string{a, "g/" + a} {
				for _, sb := range []string{b, "g/" + b} {
					queries = append(queries, Rule{sa, sb})
				}
			}
		}
	}
	return
}

type c15stats struct {
	found, notfound int64
}

func c15checkSet(r *vres.R, rules []Rule, queries []Rule, setKey string) {
	sorted := append([]Rule{}, rules...)
	sort.Slice(sorted, func(i, j int) bool { return sorted[i].String() < sorted[j].String() })
	newStorage := func() *ChainStorage {
		cs := NewChainStorage()
		ch := cs.Get("crd")
		for _, ru := range rules {
			ch.Put(ru)
		}
		return cs
	}
	ask := func(cs *ChainStorage, q Rule, mode string, order int) {
		key := fmt.Sprintf("%s|q=%s|%s|order=%d", setKey, q, mode, order)
		var chain []Rule
		var pan any
		func() {
			defer func() { pan = recover() }()
			chain = cs.FindConversionChain("crd", q)
		}()
		r.Eval(1)
		r.Transition(1)
		if pan != nil {
			r.Violation("C15a panic", key, fmt.Sprint(pan), nil)
			return
		}
		want := c15reachable(rules, q.FromVersion, q.ToVersion)
		if want && len(chain) == 0 {
			r.Violation("C15a chain-exists-not-found "+mode, key, fmt.Sprintf("rules %v: request %s has a chain but none was returned", sorted, q), nil)
			r.Outcome("V:nf", true)
			return
		}
		if !want && len(chain) > 0 {
			r.Violation("C15a chain-invented "+mode, key, fmt.Sprintf("rules %v: request %s is unreachable but chain %v was returned", sorted, q, chain), nil)
			r.Outcome("V:inv", true)
			return
		}
		if len(chain) > 0 {
			if m := c15validChain(rules, chain, q.FromVersion, q.ToVersion); m != "" {
				r.Violation("C15a invalid-chain "+mode, key, fmt.Sprintf("rules %v: request %s answered with %v: %s", sorted, q, chain, m), nil)
				r.Outcome("V:bad", true)
				return
			}
		}
		oc := fmt.Sprintf("%v|%s|%v", sorted, q, chain)
		r.Outcome(oc, len(chain) > 1)
		if len(chain) > 1 {
			r.Sample(map[string]any{"rules": fmt.Sprint(sorted), "request": q.String(), "chain": fmt.Sprint(chain), "mode": mode, "map_order": order})
		}
	}
	for order := 0; order < 3; order++ {
		vrt.KeyOrder.Store(int32(order))
		for _, q := range queries {
			if !r.Want(fmt.Sprintf("%s|q=%s|fresh|order=%d", setKey, q, order)) {
				continue
			}
			ask(newStorage(), q, "fresh", order)
		}
		if !r.Replaying() {
			cs := newStorage()
			for _, q := range queries {
				ask(cs, q, "cached-fwd", order)
			}
			cs = newStorage()
			for i := len(queries) - 1; i >= 0; i-- {
				ask(cs, queries[i], "cached-bwd", order)
			}
		} else {
			// replay of a cached-mode case: rebuild the cache the same way up to the query
			for _, mode := range []string{"cached-fwd", "cached-bwd"} {
				cs := newStorage()
				qs := append([]Rule{}, queries...)
				if mode == "cached-bwd" {
					for i, j := 0, len(qs)-1; i < j; i, j = i+1, j-1 {
						qs[i], qs[j] = qs[j], qs[i]
					}
				}
				for _, q := range qs {
					if r.Want(fmt.Sprintf("%s|q=%s|%s|order=%d", setKey, q, mode, order)) {
						ask(cs, q, mode, order)
						break
					}
					func() {
						defer func() { _ = recover() }()
						cs.FindConversionChain("crd", q)
					}()
				}
			}
		}
	}
	vrt.KeyOrder.Store(0)
	r.State(setKey)
}

func c15enumerate(r *vres.R, universe []Rule, queries []Rule, maxSize int, tag string, ord *int64) {
	n := len(universe)
	var rec func(start int, cur []int)
	rec = func(start int, cur []int) {
		if r.Expired() {
			return
		}
		if len(cur) > 0 {
			*ord++
			if vres.Mine(*ord) || r.Replaying() {
				rules := make([]Rule, len(cur))
				names := make([]string, len(cur))
				for i, k := range cur {
					rules[i] = universe[k]
					names[i] = universe[k].String()
				}
				setKey := tag + ":" + strings.Join(names, ",")
				if !r.Replaying() || strings.HasPrefix(onlyCase(), setKey+"|") {
					c15checkSet(r, rules, queries, setKey)
				}
			}
		}
		if len(cur) == maxSize {
			return
		}
		for k := start; k < n; k++ {
			rec(k+1, append(cur, k))
		}
	}
	rec(0, nil)
}

func onlyCase() string { return vresOnly }

var vresOnly = os.Getenv("VERIF_ONLY_CASE")

func TestVerifC15a(t *testing.T) {
	r := vres.New("c15a")
	defer r.Finish()
	full, queries := c15universe(true)
	short, _ := c15universe(false)
	sizeFull := vres.Pick(2, 3)
	sizeShort := vres.Pick(4, 6)
	r.Bound("versions", []string{"v1", "v1beta1", "v2", "v3"})
	r.Bound("rule_universe_all_spellings", len(full))
	r.Bound("rule_universe_short_spellings", len(short))
	r.Bound("max_rules_all_spellings", sizeFull)
	r.Bound("max_rules_short_spellings", sizeShort)
	r.Bound("queries_per_rule_set", len(queries))
	r.Bound("map_orders", []string{"sorted", "reversed", "rotated"})
	r.Bound("cache_modes", []string{"fresh", "cached-fwd", "cached-bwd"})
	var ord int64
	c15enumerate(r, full, queries, sizeFull, "full", &ord)
	c15enumerate(r, short, queries, sizeShort, "short", &ord)
	// longer straight chains and forks (the shapes in which cached paths get extended)
	vs := []string{"v1", "v2", "v3", "v4", "v5", "v6", "v7"}
	var big []Rule
	for i := 0; i+1 < len(vs); i++ {
		big = append(big, Rule{vs[i], vs[i+1]})
	}
	big = append(big, Rule{"v4", "v6"}, Rule{"v4", "v7"}, Rule{"v3", "v5"}, Rule{"v2", "v7"}, Rule{"v5", "v1"})
	var bq []Rule
	for _, a := range vs {
		for _, b := range vs {
			if a != b {
				bq = append(bq, Rule{a, b})
			}
		}
	}
	c15enumerate(r, big, bq, vres.Pick(7, 9), "long", &ord)
}
