package vfx

import (
	"k8s.io/apimachinery/pkg/api/meta"
	metav1 "k8s.io/apimachinery/pkg/apis/meta/v1"
	"k8s.io/apimachinery/pkg/fields"
	"k8s.io/apimachinery/pkg/runtime"
	fakedynamic "k8s.io/client-go/dynamic/fake"
	k8stesting "k8s.io/client-go/testing"
	"k8s.io/apimachinery/pkg/runtime/schema"
	"k8s.io/apimachinery/pkg/version"
	fakediscovery "k8s.io/client-go/discovery/fake"

	klient "github.com/flant/kube-client/client"
)

// NewMiniCluster is a fake cluster like kube-client's fake.NewFakeCluster, but it knows only
// a handful of core resources, which makes it cheap enough to build once per explored
// execution (the full resource list costs ~0.3 ms per cluster).
func NewMiniCluster() *klient.Client {
	gvrs := map[schema.GroupVersionResource]string{
		{Version: "v1", Resource: "configmaps"}:                   "ConfigMapList",
		{Version: "v1", Resource: "pods"}:                         "PodList",
		{Version: "v1", Resource: "namespaces"}:                   "NamespaceList",
		{Version: "v1", Resource: "secrets"}:                      "SecretList",
		{Group: "apps", Version: "v1", Resource: "deployments"}:   "DeploymentList",
		{Group: "stable.example.com", Version: "v1", Resource: "crontabs"}: "CronTabList",
		{Group: "apiextensions.k8s.io", Version: "v1", Resource: "customresourcedefinitions"}: "CustomResourceDefinitionList",
		// one kind served by two API groups
		{Group: "alpha.example.com", Version: "v1", Resource: "widgets"}: "WidgetList",
		{Group: "beta.example.com", Version: "v1", Resource: "widgets"}:  "WidgetList",
	}
	c := klient.NewFake(gvrs)
	// The fake object tracker ignores field selectors; the operator relies on
	// metadata.name=<name> (nameSelector.matchNames). Honour it the way an API server does.
	if fd, ok := c.Dynamic().(*fakedynamic.FakeDynamicClient); ok {
		react := k8stesting.ObjectReaction(fd.Tracker())
		fd.PrependReactor("list", "*", func(action k8stesting.Action) (bool, runtime.Object, error) {
			la, ok := action.(k8stesting.ListAction)
			if !ok {
				return false, nil, nil
			}
			fs := la.GetListRestrictions().Fields
			if fs == nil || fs.Empty() {
				return false, nil, nil
			}
			handled, obj, err := react(action)
			if !handled || err != nil {
				return handled, obj, err
			}
			items, err := meta.ExtractList(obj)
			if err != nil {
				return true, obj, nil
			}
			var kept []runtime.Object
			for _, it := range items {
				acc, err := meta.Accessor(it)
				if err != nil {
					continue
				}
				if fs.Matches(fields.Set{"metadata.name": acc.GetName(), "metadata.namespace": acc.GetNamespace()}) {
					kept = append(kept, it)
				}
			}
			if err := meta.SetList(obj, kept); err != nil {
				return true, nil, err
			}
			return true, obj, nil
		})
	}
	disc, ok := c.Discovery().(*fakediscovery.FakeDiscovery)
	if !ok {
		panic("vfx: Discovery() is not a FakeDiscovery")
	}
	disc.FakedServerVersion = &version.Info{Major: "1", Minor: "27", GitCommit: "v1.27.0"}
	verbs := metav1.Verbs{"create", "delete", "deletecollection", "get", "list", "patch", "update", "watch"}
	disc.Resources = []*metav1.APIResourceList{
		{GroupVersion: "v1", APIResources: []metav1.APIResource{
			{Kind: "ConfigMap", Name: "configmaps", Verbs: verbs, Version: "v1", Namespaced: true},
			{Kind: "Pod", Name: "pods", Verbs: verbs, Version: "v1", Namespaced: true},
			{Kind: "Secret", Name: "secrets", Verbs: verbs, Version: "v1", Namespaced: true},
			{Kind: "Namespace", Name: "namespaces", Verbs: verbs, Version: "v1", Namespaced: false},
		}},
		{GroupVersion: "apps/v1", APIResources: []metav1.APIResource{
			{Kind: "Deployment", Name: "deployments", Verbs: verbs, Group: "apps", Version: "v1", Namespaced: true},
		}},
		{GroupVersion: "apiextensions.k8s.io/v1", APIResources: []metav1.APIResource{
			{Kind: "CustomResourceDefinition", Name: "customresourcedefinitions", Verbs: verbs, Group: "apiextensions.k8s.io", Version: "v1", Namespaced: false},
		}},
		{GroupVersion: "alpha.example.com/v1", APIResources: []metav1.APIResource{
			{Kind: "Widget", Name: "widgets", Verbs: verbs, Group: "alpha.example.com", Version: "v1", Namespaced: true},
		}},
		{GroupVersion: "beta.example.com/v1", APIResources: []metav1.APIResource{
			{Kind: "Widget", Name: "widgets", Verbs: verbs, Group: "beta.example.com", Version: "v1", Namespaced: true},
		}},
		{GroupVersion: "stable.example.com/v1", APIResources: []metav1.APIResource{
			{Kind: "CronTab", Name: "crontabs", Verbs: verbs, Group: "stable.example.com", Version: "v1", Namespaced: true},
		}},
	}
	return c
}
