package vfx

import (
	"context"

	metav1 "k8s.io/apimachinery/pkg/apis/meta/v1"
	"k8s.io/apimachinery/pkg/apis/meta/v1/unstructured"
	"k8s.io/apimachinery/pkg/runtime"
	"k8s.io/apimachinery/pkg/runtime/schema"
	"k8s.io/client-go/dynamic"

	klient "github.com/flant/kube-client/client"
)

// WireClient wraps a fake cluster client so that objects sent with Create / Update pass
// through the JSON wire format first, as they do on their way to a real API server. The fake
// object tracker deep-copies what it is given and panics on Go ints (which YAML decoders and
// gojq produce); a real client serialises the object and never sees that. Without this the
// fake cluster would raise alarms that no real cluster can raise.
type WireClient struct {
	*klient.Client
}

func NewWireClient(c *klient.Client) *WireClient { return &WireClient{c} }

func (w *WireClient) Dynamic() dynamic.Interface { return wireDynamic{w.Client.Dynamic()} }

type wireDynamic struct{ dynamic.Interface }

func (d wireDynamic) Resource(gvr schema.GroupVersionResource) dynamic.NamespaceableResourceInterface {
	return wireNsRes{d.Interface.Resource(gvr)}
}

type wireNsRes struct {
	dynamic.NamespaceableResourceInterface
}

func (r wireNsRes) Namespace(ns string) dynamic.ResourceInterface {
	return wireRes{r.NamespaceableResourceInterface.Namespace(ns)}
}

func (r wireNsRes) Create(ctx context.Context, obj *unstructured.Unstructured, o metav1.CreateOptions, sub ...string) (*unstructured.Unstructured, error) {
	return wireRes{r.NamespaceableResourceInterface}.Create(ctx, obj, o, sub...)
}

func (r wireNsRes) Update(ctx context.Context, obj *unstructured.Unstructured, o metav1.UpdateOptions, sub ...string) (*unstructured.Unstructured, error) {
	return wireRes{r.NamespaceableResourceInterface}.Update(ctx, obj, o, sub...)
}

type wireRes struct{ dynamic.ResourceInterface }

func wire(obj *unstructured.Unstructured) (*unstructured.Unstructured, error) {
	b, err := runtime.Encode(unstructured.UnstructuredJSONScheme, obj)
	if err != nil {
		return nil, err
	}
	out := &unstructured.Unstructured{}
	if _, _, err := unstructured.UnstructuredJSONScheme.Decode(b, nil, out); err != nil {
		return nil, err
	}
	return out, nil
}

func (r wireRes) Create(ctx context.Context, obj *unstructured.Unstructured, o metav1.CreateOptions, sub ...string) (*unstructured.Unstructured, error) {
	w, err := wire(obj)
	if err != nil {
		return nil, err
	}
	return r.ResourceInterface.Create(ctx, w, o, sub...)
}

func (r wireRes) Update(ctx context.Context, obj *unstructured.Unstructured, o metav1.UpdateOptions, sub ...string) (*unstructured.Unstructured, error) {
	w, err := wire(obj)
	if err != nil {
		return nil, err
	}
	return r.ResourceInterface.Update(ctx, w, o, sub...)
}

func (r wireRes) UpdateStatus(ctx context.Context, obj *unstructured.Unstructured, o metav1.UpdateOptions) (*unstructured.Unstructured, error) {
	w, err := wire(obj)
	if err != nil {
		return nil, err
	}
	return r.ResourceInterface.UpdateStatus(ctx, w, o)
}
