// Package vfx holds small fixtures shared by harnesses in several packages.
package vfx

import (
	"net/http"

	"github.com/prometheus/client_golang/prometheus"

	"github.com/flant/shell-operator/pkg/metric"
	"github.com/flant/shell-operator/pkg/metric_storage/operation"
)

// NopStorage is a metric.Storage that records nothing (the operator's built-in metrics are
// not observed by any property).
type NopStorage struct{}

var _ metric.Storage = NopStorage{}

func (NopStorage) ApplyOperation(operation.MetricOperation, map[string]string) {}
func (NopStorage) Counter(string, map[string]string) *prometheus.CounterVec   { return nil }
func (NopStorage) CounterAdd(string, float64, map[string]string)              {}
func (NopStorage) Gauge(string, map[string]string) *prometheus.GaugeVec       { return nil }
func (NopStorage) GaugeAdd(string, float64, map[string]string)                {}
func (NopStorage) GaugeSet(string, float64, map[string]string)                {}
func (NopStorage) Grouped() metric.GroupedStorage                             { return nil }
func (NopStorage) Handler() http.Handler                                      { return http.NotFoundHandler() }
func (NopStorage) Histogram(string, map[string]string, []float64) *prometheus.HistogramVec {
	return nil
}
func (NopStorage) HistogramObserve(string, float64, map[string]string, []float64) {}
func (NopStorage) RegisterCounter(string, map[string]string) *prometheus.CounterVec {
	return nil
}
func (NopStorage) RegisterGauge(string, map[string]string) *prometheus.GaugeVec { return nil }
func (NopStorage) RegisterHistogram(string, map[string]string, []float64) *prometheus.HistogramVec {
	return nil
}
func (NopStorage) SendBatch([]operation.MetricOperation, map[string]string) error { return nil }
