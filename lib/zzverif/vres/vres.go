// Package vres is the result/evidence plumbing shared by every harness.
// It is added to the repository as a virtual package by `go test -overlay`
// (github.com/flant/shell-operator/pkg/zzverif/vres); /repo itself never contains it.
package vres

import (
	"crypto/sha256"
	"encoding/hex"
	"encoding/json"
	"fmt"
	"os"
	"sort"
	"strconv"
	"strings"
	"sync"
	"time"
)

// Violation is one failing case. Signature is what known_findings.json is matched
// against; Case re-identifies the case for --replay.
type Violation struct {
	Signature string `json:"signature"`
	What      string `json:"what"`
	Case      string `json:"case"`
	Detail    any    `json:"detail,omitempty"`
}

// Result is what one harness part (one shard) reports to the driver.
type Result struct {
	Part        string           `json:"part"`
	Shard       int              `json:"shard"`
	Shards      int              `json:"shards"`
	Evaluations int64            `json:"evaluations"`
	Transitions int64            `json:"transitions"`
	States      int64            `json:"states"`
	Outcomes    int64            `json:"outcomes"`
	Nontrivial  int64            `json:"distinct_nontrivial"`
	Exhaustive  bool             `json:"exhaustive"`
	Bounds      map[string]any   `json:"bounds,omitempty"`
	CapsHit     []string         `json:"caps_hit,omitempty"`
	Samples     []any            `json:"samples,omitempty"`
	Violations  []Violation      `json:"violations,omitempty"`
	ViolCount   int64            `json:"violation_count"`
	BySig       map[string]int64 `json:"violations_by_signature,omitempty"`
	Notes       []string         `json:"notes,omitempty"`
	Counters    map[string]int64 `json:"counters,omitempty"`
	WallS       float64          `json:"wall_s"`
	Replayed    bool             `json:"replayed,omitempty"`
	ExtraStates int64            `json:"extra_states"`
}

// R collects a Result. All methods are safe for concurrent use.
type R struct {
	mu        sync.Mutex
	res       Result
	states    map[[12]byte]struct{}
	outcomes  map[[12]byte]struct{}
	nontriv   map[[12]byte]struct{}
	start     time.Time
	deadline  time.Time
	only      string
	seed      int64
	maxViol   int
	maxSample int
}

func Tier() string {
	t := os.Getenv("VERIF_TIER")
	if t == "" {
		t = "quick"
	}
	return t
}

func Thorough() bool { return Tier() == "thorough" }

// Pick returns q for the quick tier and t for the thorough tier.
func Pick(q, t int) int {
	if Thorough() {
		return t
	}
	return q
}

func Seed() int64 {
	s, _ := strconv.ParseInt(os.Getenv("VERIF_SEED"), 10, 64)
	return s
}

func envInt(name string, def int) int {
	if v, err := strconv.Atoi(os.Getenv(name)); err == nil {
		return v
	}
	return def
}

// Shard returns (index, count) of this worker process.
func Shard() (int, int) {
	n := envInt("VERIF_SHARDS", 1)
	if n < 1 {
		n = 1
	}
	return envInt("VERIF_SHARD", 0), n
}

// Mine tells whether the case with ordinal i belongs to this shard.
func Mine(i int64) bool {
	s, n := Shard()
	return int(i%int64(n)) == s
}

func New(part string) *R {
	s, n := Shard()
	r := &R{
		states:    map[[12]byte]struct{}{},
		outcomes:  map[[12]byte]struct{}{},
		nontriv:   map[[12]byte]struct{}{},
		start:     time.Now(),
		only:      os.Getenv("VERIF_ONLY_CASE"),
		seed:      Seed(),
		maxViol:   40,
		maxSample: 6,
	}
	r.res.Part = part
	r.res.Shard, r.res.Shards = s, n
	r.res.Exhaustive = true
	r.res.Bounds = map[string]any{}
	r.res.BySig = map[string]int64{}
	r.res.Counters = map[string]int64{}
	if d := envInt("VERIF_DEADLINE_S", 0); d > 0 {
		r.deadline = r.start.Add(time.Duration(d) * time.Second)
	}
	// the part's deadline is absolute (shards of one part may run in several waves)
	if at := envInt("VERIF_DEADLINE_AT", 0); at > 0 {
		if t := time.Unix(int64(at), 0); r.deadline.IsZero() || t.Before(r.deadline) {
			r.deadline = t
		}
	}
	r.res.Replayed = r.only != ""
	return r
}

// Want reports whether the case with this key should be evaluated (always true
// unless a single case is being replayed).
func (r *R) Want(caseKey string) bool {
	return r.only == "" || r.only == caseKey
}

func (r *R) Replaying() bool { return r.only != "" }

// OnlyCase returns the case key being replayed ("" when exploring).
func (r *R) OnlyCase() string { return r.only }

// Deadline returns the internal deadline (zero when none).
func (r *R) Deadline() time.Time { return r.deadline }

// Expired reports that the internal deadline has passed; the harness must stop
// enumerating, and the result is marked non-exhaustive.
func (r *R) Expired() bool {
	if r.deadline.IsZero() || time.Now().Before(r.deadline) {
		return false
	}
	r.mu.Lock()
	if r.res.Exhaustive {
		r.res.Exhaustive = false
		r.res.CapsHit = append(r.res.CapsHit, "deadline")
	}
	r.mu.Unlock()
	return true
}

func (r *R) Cap(what string) {
	r.mu.Lock()
	r.res.Exhaustive = false
	r.res.CapsHit = append(r.res.CapsHit, what)
	r.mu.Unlock()
}

func (r *R) Bound(k string, v any) {
	r.mu.Lock()
	r.res.Bounds[k] = v
	r.mu.Unlock()
}

func (r *R) Note(format string, a ...any) {
	r.mu.Lock()
	if len(r.res.Notes) < 50 {
		r.res.Notes = append(r.res.Notes, fmt.Sprintf(format, a...))
	}
	r.mu.Unlock()
}

func (r *R) Count(name string, n int64) {
	r.mu.Lock()
	r.res.Counters[name] += n
	r.mu.Unlock()
}

func key(s string) [12]byte {
	h := sha256.Sum256([]byte(s))
	var k [12]byte
	copy(k[:], h[:12])
	return k
}

// Hash returns a short hex digest of the canonical JSON of v.
func Hash(v any) string {
	b, _ := json.Marshal(v)
	h := sha256.Sum256(b)
	return hex.EncodeToString(h[:8])
}

// Canon returns canonical JSON text (map keys sorted by encoding/json).
func Canon(v any) string {
	b, err := json.Marshal(v)
	if err != nil {
		return fmt.Sprintf("!%v", err)
	}
	return string(b)
}

func (r *R) Eval(n int64)       { r.mu.Lock(); r.res.Evaluations += n; r.mu.Unlock() }
func (r *R) Transition(n int64) { r.mu.Lock(); r.res.Transitions += n; r.mu.Unlock() }

// State records a canonical state; returns true when it is new.
func (r *R) State(canon string) bool {
	k := key(canon)
	r.mu.Lock()
	_, seen := r.states[k]
	if !seen {
		r.states[k] = struct{}{}
	}
	r.mu.Unlock()
	return !seen
}

// Outcome records the observable outcome of one case; nontrivial says whether the
// case involved a conflict / fault / deviation / non-default option.
func (r *R) Outcome(canon string, nontrivial bool) {
	k := key(canon)
	r.mu.Lock()
	r.outcomes[k] = struct{}{}
	if nontrivial {
		r.nontriv[k] = struct{}{}
	}
	r.mu.Unlock()
}

// Sample keeps a few actual cases for the evidence file. Which ones are kept
// rotates with VERIF_SEED.
func (r *R) Sample(v any) {
	r.mu.Lock()
	defer r.mu.Unlock()
	if len(r.res.Samples) < r.maxSample {
		r.res.Samples = append(r.res.Samples, v)
		return
	}
	// deterministic rotation: replace slot depending on evaluations and seed
	n := r.res.Evaluations + r.seed
	if n%97 == 0 {
		r.res.Samples[int(uint64(n/97)%uint64(r.maxSample))] = v
	}
}

func (r *R) Violation(sig, caseKey, what string, detail any) {
	r.mu.Lock()
	defer r.mu.Unlock()
	r.res.ViolCount++
	r.res.BySig[sig]++
	if r.res.BySig[sig] <= 3 && len(r.res.Violations) < r.maxViol {
		r.res.Violations = append(r.res.Violations, Violation{Signature: sig, What: what, Case: caseKey, Detail: detail})
	}
}

func (r *R) Violations() int64 { r.mu.Lock(); defer r.mu.Unlock(); return r.res.ViolCount }

// Finish writes the result where the driver expects it (VERIF_OUT) or to stdout.
func (r *R) Finish() {
	r.mu.Lock()
	r.res.ExtraStates = r.res.States
	r.res.States += int64(len(r.states))
	r.res.Outcomes = int64(len(r.outcomes))
	r.res.Nontrivial = int64(len(r.nontriv))
	r.res.WallS = time.Since(r.start).Seconds()
	sort.Slice(r.res.Violations, func(i, j int) bool { return r.res.Violations[i].Signature < r.res.Violations[j].Signature })
	b, _ := json.MarshalIndent(r.res, "", " ")
	r.mu.Unlock()
	out := os.Getenv("VERIF_OUT")
	if out == "" {
		fmt.Println(string(b))
		return
	}
	if r.res.Shards > 1 {
		dump := func(suffix string, m map[[12]byte]struct{}) {
			buf := make([]byte, 0, 12*len(m))
			for k := range m {
				buf = append(buf, k[:]...)
			}
			_ = os.WriteFile(out+suffix, buf, 0o644)
		}
		dump(".states", r.states)
		dump(".outcomes", r.outcomes)
		dump(".nontriv", r.nontriv)
	}
	if err := os.WriteFile(out, b, 0o644); err != nil {
		fmt.Fprintln(os.Stderr, "vres: cannot write result:", err)
		os.Exit(2)
	}
}

// AddStates lets explorers that keep their own state sets report a count.
func (r *R) AddStates(n int64) { r.mu.Lock(); r.res.States += n; r.mu.Unlock() }

// Join is a tiny helper for case keys.
func Join(parts ...any) string {
	s := make([]string, len(parts))
	for i, p := range parts {
		s[i] = fmt.Sprint(p)
	}
	return strings.Join(s, "|")
}
