package vres

// Reading back the race detector's reports of a free-running pass (parts built with -race).
// The pass is a cross-check of the scheduler's granularity, not part of the exhaustive
// verdict: the controlled scheduler switches threads at lock, channel, timer and goroutine
// start operations and at accesses to *listed* unsynchronised fields; an unsynchronised access
// that is not listed would be invisible to it. The same harness bodies are therefore run once
// more without the scheduler under the race detector; every reported race must be on a listed
// field, anything else is reported as a cap ("interleavings at this access are not explored").

import (
	"encoding/json"
	"fmt"
	"os"
	"path/filepath"
	"regexp"
	"sort"
	"strconv"
	"strings"
)

// RaceAccess is the top frame of one of the two conflicting accesses.
type RaceAccess struct {
	Op   string
	Func string
	File string
	Line int
}

type Race struct {
	A, B RaceAccess
}

var raceHead = regexp.MustCompile(`^(Read|Write|Previous read|Previous write|Atomic read|Atomic write|Previous atomic read|Previous atomic write) at 0x[0-9a-f]+ by `)
var raceLoc = regexp.MustCompile(`^\s+(/\S+):(\d+)`)

// RaceReports parses the files written by the race detector of this process.
func RaceReports() []Race {
	base := os.Getenv("VERIF_RACELOG")
	if base == "" {
		return nil
	}
	files, _ := filepath.Glob(base + ".*")
	var out []Race
	for _, f := range files {
		b, err := os.ReadFile(f)
		if err != nil {
			continue
		}
		for _, block := range strings.Split(string(b), "==================") {
			if !strings.Contains(block, "DATA RACE") {
				continue
			}
			lines := strings.Split(block, "\n")
			var acc []RaceAccess
			for i := 0; i < len(lines); i++ {
				m := raceHead.FindStringSubmatch(lines[i])
				if m == nil {
					continue
				}
				a := RaceAccess{Op: m[1]}
				// skip frames inside the runtime / sync / atomic packages: the access is made on
				// behalf of the first frame outside them
				for j := i + 1; j+1 < len(lines) && strings.TrimSpace(lines[j]) != ""; j += 2 {
					fn := strings.TrimSpace(lines[j])
					lm := raceLoc.FindStringSubmatch(lines[j+1])
					if lm == nil {
						break
					}
					if strings.HasPrefix(fn, "runtime.") || strings.HasPrefix(fn, "sync.") || strings.HasPrefix(fn, "sync/atomic.") || strings.HasPrefix(fn, "internal/") {
						continue
					}
					a.Func = fn
					a.File = lm[1]
					a.Line, _ = strconv.Atoi(lm[2])
					break
				}
				acc = append(acc, a)
			}
			if len(acc) >= 2 {
				out = append(out, Race{acc[0], acc[1]})
			}
		}
	}
	return out
}

type instrCfg struct {
	Files []struct {
		Path  string   `json:"path"`
		As    string   `json:"as"`
		Touch []string `json:"touch"`
	} `json:"files"`
}

// ReportRaces classifies the races of this process and records them on r:
// a race whose repository-side accesses are all statements mentioning a listed field is a
// note; a race in repository code elsewhere is a cap; a race in harness code is a panic
// (harness bug). Races entirely inside third-party code are counted only.
func ReportRaces(r *R) {
	races := RaceReports()
	repo := os.Getenv("VERIF_REPO")
	work := os.Getenv("VERIF_WORK")
	var ov struct{ Replace map[string]string }
	ovPath, cfgPath := os.Getenv("VERIF_OVERLAY"), os.Getenv("VERIF_INSTRCFG")
	if ovPath == "" {
		ovPath = filepath.Join(work, "overlay.json")
	}
	if cfgPath == "" {
		cfgPath = filepath.Join(work, "instr.json")
	}
	if b, err := os.ReadFile(ovPath); err == nil {
		_ = json.Unmarshal(b, &ov)
	}
	var cfg instrCfg
	if b, err := os.ReadFile(cfgPath); err == nil {
		_ = json.Unmarshal(b, &cfg)
	}
	touch := map[string][]string{}
	for _, f := range cfg.Files {
		touch[filepath.Join(repo, f.Path)] = f.Touch
	}
	srcLine := func(a RaceAccess) string {
		path := a.File
		if c, ok := ov.Replace[path]; ok {
			path = c
		}
		b, err := os.ReadFile(path)
		if err != nil {
			return ""
		}
		ls := strings.Split(string(b), "\n")
		if a.Line-1 < len(ls) && a.Line >= 1 {
			return strings.TrimSpace(ls[a.Line-1])
		}
		return ""
	}
	listed := map[string]int{}
	unlisted := map[string]int{}
	external := 0
	for _, rc := range races {
		var repoAcc []RaceAccess
		harness := false
		for _, a := range []RaceAccess{rc.A, rc.B} {
			switch {
			case strings.Contains(a.File, "zz_verif") || strings.Contains(a.File, "/zzverif/"):
				harness = true
			case strings.HasPrefix(a.File, repo+"/"):
				repoAcc = append(repoAcc, a)
			}
		}
		desc := fmt.Sprintf("%s %s (%s:%d) / %s %s (%s:%d)", rc.A.Op, rc.A.Func, filepath.Base(rc.A.File), rc.A.Line, rc.B.Op, rc.B.Func, filepath.Base(rc.B.File), rc.B.Line)
		if harness && len(repoAcc) == 0 {
			panic("race inside harness code (harness bug): " + desc)
		}
		if len(repoAcc) == 0 {
			external++
			continue
		}
		all := true
		var fields []string
		for _, a := range repoAcc {
			txt := srcLine(a)
			hit := ""
			for _, f := range touch[a.File] {
				if strings.Contains(txt, "."+f) || (strings.Contains(f, ".") && strings.Contains(txt, f)) {
					hit = f
				}
			}
			if hit == "" {
				all = false
			} else {
				fields = append(fields, filepath.Base(a.File)+":"+hit)
			}
		}
		if harness {
			// the harness reads or writes a repository variable without synchronisation
			panic("race between harness code and repository code (harness bug): " + desc)
		}
		if all {
			sort.Strings(fields)
			listed[strings.Join(fields, ",")]++
		} else {
			var fs []string
			for _, a := range repoAcc {
				fn := a.Func
				if i := strings.LastIndex(fn, "/"); i >= 0 {
					fn = fn[i+1:]
				}
				fs = append(fs, fmt.Sprintf("%s (%s: `%s`)", strings.TrimSuffix(fn, "()"), filepath.Base(a.File), srcLine(a)))
			}
			sort.Strings(fs)
			unlisted[strings.Join(fs, " / ")]++
		}
	}
	r.Count("race_reports", int64(len(races)))
	r.Count("race_reports_third_party_only", int64(external))
	for k, n := range listed {
		r.Note("race pass: %d report(s) on listed unsynchronised field(s) %s (these accesses are scheduling points)", n, k)
	}
	var uk []string
	for k := range unlisted {
		uk = append(uk, k)
	}
	sort.Strings(uk)
	for i, k := range uk {
		if i == 5 {
			r.Cap(fmt.Sprintf("race pass: further unsynchronised accesses that are not scheduling points (%d kinds in this shard)", len(uk)))
			break
		}
		r.Cap("race pass: unsynchronised access that is not a scheduling point, interleavings at it are not explored: " + k)
	}
	if len(races) == 0 {
		r.Note("race pass: no data race reported")
	}
}
