package vrt

import (
	"fmt"
	"os"
	"runtime"
	"sync"
	"sync/atomic"
	"time"
)

func goexit() { runtime.Goexit() }

// freeSelect emulates the readiness decision of a select statement without an execution:
// it polls until a case is ready (used only by free-running passes).
func freeSelect(hasDefault bool, cases []SelCase) int {
	for {
		for i, c := range cases {
			if c.ready() {
				return i
			}
		}
		if hasDefault {
			return -1
		}
		time.Sleep(20 * time.Microsecond)
	}
}

// Run executes body once under the scheduler, following prefix and then the default
// choice everywhere. It returns the finished execution.
func Run(opts *Options, prefix []int, expect []PointInfo, body func(x *Exec)) *Exec {
	if opts.MaxSteps == 0 {
		opts.MaxSteps = 20000
	}
	x := &Exec{opts: opts, prefix: prefix, expect: expect, endCh: make(chan string, 4)}
	if active.Load() != nil {
		panic("vrt: nested executions")
	}
	startWatchdog()
	beat.Add(1)
	active.Store(x)
	main := x.spawn("main", func() { body(x) })
	x.cur = main
	main.wake <- struct{}{}
	<-x.endCh
	// teardown: unwind every unfinished thread, one at a time
	x.killing.Store(true)
	for i := 0; i < len(x.threads); i++ { // threads may not grow while killing
		t := x.threads[i]
		select {
		case <-t.exited:
			continue
		default:
		}
		x.cur = t
		select {
		case t.wake <- struct{}{}:
		default:
		}
		select {
		case <-t.exited:
		case <-time.After(120 * time.Second):
			// the thread is blocked outside the scheduler (uninstrumented synchronisation):
			// nothing that follows could be trusted - stop the process, the driver reports the
			// check as broken rather than as a finding
			stuck(fmt.Sprintf("teardown: thread %d (%s) did not unwind", t.id, t.name))
		}
	}
	active.Store(nil)
	return x
}

// beat counts scheduling decisions of all executions; the watchdog ends the process when an
// execution is active but no scheduling point has been reached for a long time (a thread
// blocked in synchronisation the scheduler does not own would otherwise hang the run until
// the driver's timeout). It is a liveness guard only and decides nothing.
var (
	beat         atomic.Int64
	watchdogOnce sync.Once
)

func stuck(why string) {
	buf := make([]byte, 1<<20)
	buf = buf[:runtime.Stack(buf, true)]
	fmt.Fprintf(os.Stderr, "vrt: WATCHDOG %s\n%s\n", why, buf)
	os.Exit(3)
}

func startWatchdog() {
	watchdogOnce.Do(func() {
		go func() {
			last, since := int64(-1), time.Now()
			for {
				time.Sleep(2 * time.Second)
				b := beat.Load()
				if active.Load() == nil || b != last {
					last, since = b, time.Now()
					continue
				}
				if time.Since(since) > 180*time.Second {
					stuck("no scheduling point reached for 180s: a thread is blocked outside the scheduler")
				}
			}
		}()
	})
}

// Stats of an exploration.
type Stats struct {
	Executions   int64
	ByDevs       map[int]int64
	Points       int64
	Steps        int64
	MaxPoints    int
	Capped       string
	BoundDone    int
	Skipped      int64
	Diverged     int64
}

// Explorer enumerates all executions of body whose number of deviations is <= Bound.
type Explorer struct {
	Opts     Options
	MaxExec  int64
	Deadline time.Time
	Shard    int
	Shards   int
	// Check is called after every execution that belongs to this shard.
	Check func(x *Exec)
	Stats Stats
	ord   int64
}

func (e *Explorer) Explore(body func(x *Exec)) {
	e.Stats.ByDevs = map[int]int64{}
	if e.Shards < 1 {
		e.Shards = 1
	}
	e.explore(nil, nil, 0, body)
	if e.Stats.Capped == "" {
		e.Stats.BoundDone = e.Opts.Bound
	}
}

func (e *Explorer) capped() bool {
	if e.Stats.Capped != "" {
		return true
	}
	if e.MaxExec > 0 && e.Stats.Executions >= e.MaxExec {
		e.Stats.Capped = "max_executions"
		return true
	}
	if !e.Deadline.IsZero() && time.Now().After(e.Deadline) {
		e.Stats.Capped = "deadline"
		return true
	}
	return false
}

func (e *Explorer) explore(prefix []int, expect []PointInfo, depth int, body func(x *Exec)) {
	if e.capped() {
		return
	}
	// sharding: executions at DFS depth 2 are dealt round-robin; depth 0/1 are run by every
	// shard (to find their children) but only checked by shard 0.
	mine := true
	if e.Shards > 1 {
		switch {
		case depth < 2:
			mine = e.Shard == 0
		case depth == 2:
			e.ord++
			if int(e.ord%int64(e.Shards)) != e.Shard {
				e.Stats.Skipped++
				return
			}
		}
	}
	opts := e.Opts
	x := Run(&opts, prefix, expect, body)
	if x.End == "diverged" {
		e.Stats.Diverged++
		if e.Stats.Capped == "" && e.Stats.Diverged > 3 {
			// nondeterminism outside the scheduler's control: stop, report as capped
			e.Stats.Capped = "nondeterminism (replay diverged): " + x.Diverged
		}
		return
	}
	if mine {
		e.Stats.Executions++
		e.Stats.ByDevs[x.devs]++
		e.Stats.Points += int64(len(x.Points))
		e.Stats.Steps += int64(x.Steps)
		if len(x.Points) > e.Stats.MaxPoints {
			e.Stats.MaxPoints = len(x.Points)
		}
		if e.Check != nil {
			e.Check(x)
		}
	}
	for i := len(prefix); i < len(x.Points); i++ {
		p := x.Points[i]
		base := x.DevsAt[i]
		for alt := 1; alt < p.N; alt++ {
			cost := 0
			if p.Preempt {
				cost = 1
			}
			if base+cost > e.Opts.Bound {
				continue
			}
			np := append(append(make([]int, 0, i+1), x.Choices[:i]...), alt)
			e.explore(np, x.Points[:i+1], depth+1, body)
			if e.capped() {
				return
			}
		}
	}
}

// Devs returns the number of deviations this execution took.
func (x *Exec) Devs() int { return x.devs }

// TraceStrings renders the recorded trace.
func (x *Exec) TraceStrings() []string {
	out := make([]string, len(x.Trace))
	for i, s := range x.Trace {
		out[i] = fmt.Sprintf("%d:%s@%s", s.T, s.Kind, s.Site)
	}
	return out
}
