package vrt

import (
	"reflect"
)

// ready tells whether a receive on ch would not block (data buffered, or closed).
// Only channels whose senders are all instrumented (or close-only channels such as
// ctx.Done()) may be used: a value arriving from an unscheduled sender is a harness error.
func recvReady[T any](ch <-chan T) bool {
	if ch == nil {
		return false
	}
	if len(ch) > 0 {
		return true
	}
	if cap(ch) > 0 {
		// empty buffered channel: ready only when closed
		select {
		case _, ok := <-ch:
			if ok {
				panic("vrt: value arrived on a channel from an unscheduled sender")
			}
			return true
		default:
			return false
		}
	}
	select {
	case _, ok := <-ch:
		if ok {
			panic("vrt: unbuffered data channel with an unscheduled sender")
		}
		return true
	default:
		return false
	}
}

// Send is `ch <- v`.
func Send[T any](ch chan<- T, v T) {
	x := active.Load()
	if x == nil || x.killing.Load() {
		if x != nil {
			select {
			case ch <- v:
			default:
			}
			return
		}
		ch <- v
		return
	}
	if cap(ch) == 0 {
		panic("vrt: send on an unbuffered channel is not supported by the scheduler")
	}
	x.wait("send", site(1), func() bool { return len(ch) < cap(ch) })
	ch <- v
}

// Recv is `<-ch`.
func Recv[T any](ch <-chan T) T {
	v, _ := Recv2(ch)
	return v
}

// Recv2 is `v, ok := <-ch`.
func Recv2[T any](ch <-chan T) (T, bool) {
	x := active.Load()
	if x == nil {
		v, ok := <-ch
		return v, ok
	}
	if x.killing.Load() {
		var zero T
		select {
		case v, ok := <-ch:
			return v, ok
		default:
			return zero, false
		}
	}
	x.wait("recv", site(1), func() bool { return recvReady(ch) })
	v, ok := <-ch
	return v, ok
}

// SelCase is one communication clause of a select statement.
type SelCase struct {
	ch   reflect.Value
	send bool
}

func RecvCase(ch any) SelCase { return SelCase{ch: reflect.ValueOf(ch)} }
func SendCase(ch any) SelCase { return SelCase{ch: reflect.ValueOf(ch), send: true} }

func (c SelCase) ready() bool {
	if !c.ch.IsValid() || c.ch.IsNil() {
		return false
	}
	if c.send {
		return c.ch.Len() < c.ch.Cap()
	}
	if c.ch.Len() > 0 {
		return true
	}
	// closed?  TryRecv on an empty channel: (zero Value,false) = would block; (valid zero,false) = closed
	v, ok := c.ch.TryRecv()
	if ok {
		panic("vrt: select consumed a value from a channel with an unscheduled sender")
	}
	return v.IsValid()
}

// Select decides which clause of a select statement runs: index of a ready case, or -1 for
// default. The instrumented code then executes the original clause alone.
func Select(hasDefault bool, cases ...SelCase) int {
	x := active.Load()
	if x == nil {
		return freeSelect(hasDefault, cases)
	}
	if x.killing.Load() {
		for i, c := range cases {
			if c.ready() {
				return i
			}
		}
		if hasDefault {
			return -1
		}
		// nothing ready while unwinding: leave the goroutine
		goexit()
	}
	anyReady := func() bool {
		for _, c := range cases {
			if c.ready() {
				return true
			}
		}
		return false
	}
	st := site(1)
	x.wait("select", st, func() bool { return hasDefault || anyReady() })
	var ready []int
	for i, c := range cases {
		if c.ready() {
			ready = append(ready, i)
		}
	}
	if len(ready) == 0 {
		return -1
	}
	if len(ready) > 1 && x.opts.SelectDev {
		return ready[x.choose(len(ready), "select", st, true, x.cur.id)]
	}
	return ready[0]
}
