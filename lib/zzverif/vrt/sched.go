// Package vrt is the controlled scheduler of engine E1: one harness thread runs at a time,
// threads hand the processor over at scheduling points (lock acquisition, channel operations,
// select, timers, vrt.Touch on racy fields, vrt.Go), time is virtual, and an explorer enumerates
// all choice sequences up to a deviation bound (pre-emptions, non-first ready select arms,
// non-default map orders, timers firing while threads are runnable).
//
// When no execution is active every operation falls back to its real behaviour, so that
// instrumented packages also work free-running (set-up code, conformance and -race passes).
package vrt

import (
	"fmt"
	"runtime"
	"sort"
	"strings"
	"sync"
	"sync/atomic"
	"time"
)

// Epoch is the start of virtual time in every execution.
var Epoch = time.Date(2026, 1, 1, 0, 0, 0, 0, time.UTC)

type op struct {
	kind    string
	site    string
	enabled func() bool
}

type thread struct {
	id     int
	name   string
	wake   chan struct{}
	pend   *op
	done   bool
	exited chan struct{}
}

// PointInfo describes one recorded choice point.
type PointInfo struct {
	N       int    // number of alternatives
	Kind    string // sched | select | keys | choose | clock
	Site    string
	Preempt bool // alternatives > 0 cost one deviation
	Thread  int
}

type Step struct {
	T    int
	Kind string
	Site string
}

type vtimer struct {
	seq      int
	deadline time.Duration
	period   time.Duration // >0: ticker
	ch       chan time.Time
	fn       func()
	stopped  bool
	sleeper  bool
}

// Exec is one controlled execution.
type Exec struct {
	opts    *Options
	mu      sync.Mutex
	threads []*thread
	cur     *thread
	prefix  []int
	expect  []PointInfo
	Choices []int
	Points  []PointInfo
	DevsAt  []int // deviations accumulated before point i
	devs    int
	Steps   int
	Trace   []Step
	now     time.Duration
	timers  []*vtimer
	tseq    int
	killing atomic.Bool
	ended   bool
	endCh   chan string
	End     string // done | deadlock | steps | diverged
	Diverged string // why, when End == "diverged"
	Panics  []string
	Blocked []string // on deadlock: what each unfinished thread waits for
	idle    int
	keySeq  int
	Log     []string // harness-level observations (vrt.Logf)
	Data    any      // harness scratch
	atomic  int
	eager   []func()
	inPred  int
	quiet   bool // not exploring: default choice everywhere, no choice points recorded
}

type Options struct {
	Bound        int
	MaxSteps     int
	ClockDev     bool                   // allow timers to fire while threads are runnable (cost 1)
	SelectDev    bool                   // allow non-first ready select arm (cost 1)
	KeysDev      bool                   // allow non-sorted map orders (cost 1)
	Filter       func(site string) bool // pre-emptive alternatives only at these sites (nil: everywhere)
	// DelayBound: every non-default scheduling choice costs one deviation, also when the
	// running thread blocked or finished (delay-bounded scheduling relative to the
	// deterministic default scheduler: keep running, else lowest thread id).
	DelayBound bool
	// FreeSwitch: switching away from a runnable thread parked at such a point costs nothing
	// (environment timing: informer lag, hook duration), all alternatives are explored.
	FreeSwitch   func(kind, site string) bool
	RecordTrace  bool
	MaxIdleTicks int
}

var active atomic.Pointer[Exec]

// Active returns the running execution or nil.
func Active() *Exec { return active.Load() }

func site(skip int) string {
	var pcs [1]uintptr
	if runtime.Callers(skip+2, pcs[:]) == 0 {
		return "?"
	}
	return siteOf(pcs[0])
}

var siteCache sync.Map

func siteOf(pc uintptr) string {
	if v, ok := siteCache.Load(pc); ok {
		return v.(string)
	}
	fr, _ := runtime.CallersFrames([]uintptr{pc}).Next()
	fn := fr.Function
	if i := strings.LastIndex(fn, "/"); i >= 0 {
		fn = fn[i+1:]
	}
	file := fr.File
	if i := strings.LastIndex(file, "/"); i >= 0 {
		file = file[i+1:]
	}
	// instrumented copies are named NNN_<file>; strip the prefix
	if len(file) > 4 && file[3] == '_' && file[0] >= '0' && file[0] <= '9' {
		file = file[4:]
	}
	s := fmt.Sprintf("%s:%s", file, fn)
	siteCache.Store(pc, s)
	return s
}

// ---- thread management ----

func (x *Exec) spawn(name string, f func()) *thread {
	t := &thread{id: len(x.threads), name: name, wake: make(chan struct{}, 1), exited: make(chan struct{})}
	t.pend = &op{kind: "start", site: name}
	x.threads = append(x.threads, t)
	go func() {
		<-t.wake
		defer func() {
			r := recover()
			t.done = true
			t.pend = nil
			if r != nil && !x.killing.Load() {
				buf := make([]byte, 2048)
				n := runtime.Stack(buf, false)
				x.Panics = append(x.Panics, fmt.Sprintf("thread %d (%s): %v\n%s", t.id, t.name, r, shortStack(string(buf[:n]))))
			}
			if x.killing.Load() {
				close(t.exited)
				return
			}
			if t.id == 0 || r != nil {
				// main finished (or a thread crashed): the execution ends
				close(t.exited)
				x.end("done")
				return
			}
			close(t.exited)
			x.schedule(t)
		}()
		if x.killing.Load() {
			return
		}
		f()
	}()
	return t
}

func shortStack(s string) string {
	lines := strings.Split(s, "\n")
	var out []string
	for _, l := range lines {
		if strings.Contains(l, "/zzverif/") || strings.Contains(l, "runtime/") || strings.HasPrefix(l, "goroutine ") {
			continue
		}
		out = append(out, strings.TrimSpace(l))
		if len(out) >= 12 {
			break
		}
	}
	return strings.Join(out, " | ")
}

func (x *Exec) end(reason string) {
	x.mu.Lock()
	if x.ended {
		x.mu.Unlock()
		return
	}
	x.ended = true
	if x.Diverged != "" {
		reason = "diverged"
	}
	x.End = reason
	x.mu.Unlock()
	x.endCh <- reason
}

// wait is the scheduling point: the calling (current) thread declares what it is about to
// do and under which condition it can proceed, lets the scheduler pick who runs next and
// returns once it has been picked with its condition true.
func (x *Exec) wait(kind, st string, enabled func() bool) {
	if x.killing.Load() || x.inPred > 0 {
		return
	}
	t := x.cur
	t.pend = &op{kind: kind, site: st, enabled: enabled}
	x.schedule(t)
	if x.killing.Load() {
		runtime.Goexit()
	}
	t.pend = nil
}

func (x *Exec) schedule(from *thread) {
	beat.Add(1)
	for {
		if x.ended {
			x.park(from)
			return
		}
		x.inPred++
		for _, f := range x.eager {
			f()
		}
		x.inPred--
		if x.Steps >= x.opts.MaxSteps {
			x.end("steps")
			x.park(from)
			return
		}
		var list []*thread
		fromEnabled := false
		// guards are evaluated in observation mode: instrumented code they call (e.g. a
		// harness condition reading a queue) passes through locks without scheduling
		x.inPred++
		if !from.done && from.pend != nil && (from.pend.enabled == nil || from.pend.enabled()) {
			list = append(list, from)
			fromEnabled = true
		}
		for _, t := range x.threads {
			if t == from || t.done || t.pend == nil {
				continue
			}
			if t.pend.enabled == nil || t.pend.enabled() {
				list = append(list, t)
			}
		}
		x.inPred--
		haveTimer := x.nextDeadline() >= 0
		if len(list) == 0 {
			if haveTimer {
				x.idle++
				if x.opts.MaxIdleTicks > 0 && x.idle > x.opts.MaxIdleTicks {
					x.end("idle")
					x.park(from)
					return
				}
				x.advanceClock()
				continue
			}
			// deadlock: nobody can move and no timer is pending
			for _, t := range x.threads {
				if !t.done && t.pend != nil {
					x.Blocked = append(x.Blocked, fmt.Sprintf("%d(%s) %s@%s", t.id, t.name, t.pend.kind, t.pend.site))
				}
			}
			x.end("deadlock")
			x.park(from)
			return
		}
		if (x.atomic > 0 && fromEnabled) || x.quiet {
			// harness set-up section: the running thread keeps the processor;
			// quiet phase: the deterministic default scheduler runs
			list = list[:1]
		}
		n := len(list)
		clockAlt := x.opts.ClockDev && haveTimer && x.atomic == 0 && !x.quiet
		if clockAlt {
			n++
		}
		idx := 0
		if n > 1 {
			preempt := fromEnabled
			st := list[0].pend.site
			if preempt && !(x.opts.FreeSwitch != nil && x.opts.FreeSwitch(from.pend.kind, from.pend.site)) {
				if x.opts.Filter != nil && !x.opts.Filter(from.pend.site) {
					// pre-emption not wanted here: no choice point at all
					n = 1
				}
			}
			if n > 1 {
				costly := preempt || (clockAlt && len(list) == 1) || x.opts.DelayBound
				if preempt && x.opts.FreeSwitch != nil && x.opts.FreeSwitch(from.pend.kind, from.pend.site) {
					costly = false
				}
				idx = x.choose(n, "sched", st, costly, from.id)
			}
		}
		if idx >= len(list) {
			// the clock lands first
			x.advanceClock()
			continue
		}
		next := list[idx]
		x.idle = 0
		x.cur = next
		x.Steps++
		if x.opts.RecordTrace {
			x.Trace = append(x.Trace, Step{next.id, next.pend.kind, next.pend.site})
		}
		if next == from {
			return
		}
		next.wake <- struct{}{}
		x.park(from)
		return
	}
}

func (x *Exec) park(t *thread) {
	if t.done {
		return
	}
	<-t.wake
}

// choose records a choice point with n alternatives and returns the one to take.
func (x *Exec) choose(n int, kind, st string, costly bool, tid int) int {
	if n <= 1 {
		return 0
	}
	if x.quiet && kind != "choose" {
		return 0
	}
	i := len(x.Choices)
	c := 0
	pi := PointInfo{N: n, Kind: kind, Site: st, Preempt: costly, Thread: tid}
	if i < len(x.prefix) {
		c = x.prefix[i]
		if i < len(x.expect) {
			e := x.expect[i]
			if e.N != n || e.Kind != kind || e.Site != st {
				x.diverged(fmt.Sprintf("replay divergence at choice %d: expected %+v, got %+v", i, e, pi))
				c = 0
			}
		}
		if c >= n {
			x.diverged(fmt.Sprintf("replay divergence at choice %d: choice %d out of range (n=%d, %s %s)", i, c, n, kind, st))
			c = 0
		}
	}
	x.DevsAt = append(x.DevsAt, x.devs)
	if c > 0 && costly {
		x.devs++
	}
	x.Choices = append(x.Choices, c)
	x.Points = append(x.Points, pi)
	return c
}

// diverged: replaying a recorded prefix met a different scheduling point than the run that
// recorded it - some nondeterminism is not owned by the scheduler. That is a defect of the
// machinery, never a finding about the code under test: the execution is not judged, the
// explorer counts it and reports the exploration as capped (not exhaustive).
func (x *Exec) diverged(msg string) {
	if x.Diverged == "" {
		x.Diverged = msg
	}
}

// ---- virtual clock ----

func (x *Exec) nextDeadline() time.Duration {
	best := time.Duration(-1)
	for _, t := range x.timers {
		if t.stopped {
			continue
		}
		if best < 0 || t.deadline < best {
			best = t.deadline
		}
	}
	return best
}

func (x *Exec) advanceClock() {
	d := x.nextDeadline()
	if d < 0 {
		return
	}
	if d > x.now {
		x.now = d
	}
	live := x.timers[:0]
	var fire []*vtimer
	for _, t := range x.timers {
		if t.stopped {
			continue
		}
		if t.deadline <= x.now {
			fire = append(fire, t)
			if t.period > 0 {
				t.deadline += t.period
				if t.deadline <= x.now {
					t.deadline = x.now + t.period
				}
				live = append(live, t)
			} else {
				t.stopped = true
			}
		} else {
			live = append(live, t)
		}
	}
	x.timers = live
	sort.SliceStable(fire, func(i, j int) bool { return fire[i].seq < fire[j].seq })
	for _, t := range fire {
		if t.ch != nil {
			select {
			case t.ch <- Epoch.Add(x.now):
			default:
			}
		}
		if t.fn != nil {
			x.spawn("afterfunc", t.fn)
		}
	}
	if x.opts.RecordTrace {
		x.Trace = append(x.Trace, Step{-1, "clock", x.now.String()})
	}
}

func (x *Exec) addTimer(d, period time.Duration, ch chan time.Time, fn func()) *vtimer {
	x.tseq++
	t := &vtimer{seq: x.tseq, deadline: x.now + d, period: period, ch: ch, fn: fn}
	x.timers = append(x.timers, t)
	return t
}

// Now returns the virtual time of the active execution.
func (x *Exec) Now() time.Duration { return x.now }

// ---- public operations used by shims and instrumented code ----

// Wait is a generic scheduling point for shims: kind names the operation, enabled its guard.
func Wait(kind string, enabled func() bool) {
	x := active.Load()
	if x == nil {
		panic("vrt.Wait without active execution")
	}
	x.wait(kind, site(1), enabled)
}

// WaitAt is Wait with an explicit caller depth (for shims called through wrappers).
func WaitAt(skip int, kind string, enabled func() bool) {
	x := active.Load()
	x.wait(kind, site(1+skip), enabled)
}

// Touch marks an access to a field that is shared without a common lock.
func Touch(what string) {
	x := active.Load()
	if x == nil {
		return
	}
	x.wait("touch:"+what, site(1), nil)
}

// Yield is a plain scheduling point (harness code).
func Yield(what string) {
	x := active.Load()
	if x == nil {
		runtime.Gosched()
		return
	}
	x.wait("yield:"+what, site(1), nil)
}

// Go starts a thread.
func Go(f func()) {
	x := active.Load()
	if x == nil {
		go f()
		return
	}
	if x.killing.Load() {
		return
	}
	st := site(1)
	x.spawn(st, f)
	x.wait("go", st, nil)
}

// GoNamed starts a named harness thread without a scheduling point for the caller.
func GoNamed(name string, f func()) {
	x := active.Load()
	if x == nil {
		go f()
		return
	}
	if x.killing.Load() {
		return
	}
	x.spawn(name, f)
}

// Choose lets the explorer enumerate n environment answers (cost 0).
func Choose(n int, what string) int {
	x := active.Load()
	if x == nil {
		return 0
	}
	if x.killing.Load() {
		return 0
	}
	return x.choose(n, "choose", what, false, x.cur.id)
}

// WaitFor blocks the calling thread until cond holds or the virtual timeout passes.
// Returns whether cond held.
func WaitFor(what string, timeout time.Duration, cond func() bool) bool {
	x := active.Load()
	if x == nil {
		dl := time.Now().Add(30 * time.Second)
		for !cond() {
			if time.Now().After(dl) {
				return false
			}
			time.Sleep(50 * time.Microsecond)
		}
		return true
	}
	if x.killing.Load() {
		return cond()
	}
	deadline := x.now + timeout
	tm := x.addTimer(timeout, 0, nil, nil)
	x.wait("waitfor:"+what, what, func() bool { return cond() || x.now >= deadline })
	tm.stopped = true
	x.inPred++
	defer func() { x.inPred-- }()
	return cond()
}

// Logf appends a harness-level observation to the execution.
func Logf(format string, a ...any) {
	x := active.Load()
	if x == nil {
		return
	}
	x.Log = append(x.Log, fmt.Sprintf(format, a...))
}

// Int64N replaces rand.Int64N: the explorer picks one of the extremes.
func Int64N(n int64) int64 {
	x := active.Load()
	if x == nil || n <= 1 {
		return 0
	}
	if x.killing.Load() {
		return 0
	}
	if x.choose(2, "rand", "rand", false, x.cur.id) == 1 {
		return n - 1
	}
	return 0
}

// Keys returns the keys of m in a controlled order (sorted by their printed form; the
// explorer may ask for the reverse order at the cost of one deviation). Without an active
// execution the order is set by KeyOrder.
func Keys[M ~map[K]V, K comparable, V any](m M) []K {
	ks := make([]K, 0, len(m))
	for k := range m {
		ks = append(ks, k)
	}
	strs := make(map[K]string, len(ks))
	for _, k := range ks {
		strs[k] = fmt.Sprint(k)
	}
	sort.Slice(ks, func(i, j int) bool { return strs[ks[i]] < strs[ks[j]] })
	mode := 0
	if x := active.Load(); x != nil && !x.killing.Load() {
		if x.opts.KeysDev && len(ks) > 1 {
			mode = x.choose(2, "keys", site(1), true, x.cur.id)
		}
	} else {
		mode = int(KeyOrder.Load())
	}
	applyOrder(ks, mode)
	return ks
}

// KeyOrder selects the map order used outside executions: 0 sorted, 1 reversed,
// k>=2 rotated left by k-1.
var KeyOrder atomic.Int32

func applyOrder[K any](ks []K, mode int) {
	n := len(ks)
	if n < 2 || mode == 0 {
		return
	}
	if mode == 1 {
		for i, j := 0, n-1; i < j; i, j = i+1, j-1 {
			ks[i], ks[j] = ks[j], ks[i]
		}
		return
	}
	r := (mode - 1) % n
	tmp := append(append([]K{}, ks[r:]...), ks[:r]...)
	copy(ks, tmp)
}

// ---- timers for vtime ----

// VTimer is a scheduler-owned timer or ticker.
type VTimer struct {
	x *Exec
	t *vtimer
}

// NewVTimer registers a timer (period 0) or ticker firing into a capacity-1 channel.
func NewVTimer(d, period time.Duration) (<-chan time.Time, *VTimer) {
	x := active.Load()
	ch := make(chan time.Time, 1)
	t := x.addTimer(d, period, ch, nil)
	return ch, &VTimer{x, t}
}

func (v *VTimer) Stop() bool {
	was := !v.t.stopped
	v.t.stopped = true
	return was
}

func (v *VTimer) Reset(d, period time.Duration) bool {
	was := !v.t.stopped
	v.t.stopped = true
	nt := v.x.addTimer(d, period, v.t.ch, nil)
	v.t = nt
	return was
}

// SleepVirtual blocks the calling thread for d of virtual time.
func SleepVirtual(d time.Duration) {
	x := active.Load()
	if x == nil || x.killing.Load() {
		return
	}
	deadline := x.now + d
	x.addTimer(d, 0, nil, nil)
	x.wait("sleep", site(2), func() bool { return x.now >= deadline })
}

// ThreadID returns the id of the running harness thread (-1 without an execution).
func ThreadID() int {
	x := active.Load()
	if x == nil || x.cur == nil {
		return -1
	}
	return x.cur.id
}

// Atomic runs f without offering the processor to other threads at scheduling points the
// caller can pass (harness set-up sections). Blocking still switches.
func Atomic(f func()) {
	x := active.Load()
	if x == nil {
		f()
		return
	}
	x.atomic++
	defer func() { x.atomic-- }()
	f()
}

// Eager registers an environment action that runs at every scheduling decision before the
// enabled set is computed (e.g. a zero-latency consumer draining a channel). It must not
// block and must not call scheduling operations.
func Eager(f func()) {
	if x := active.Load(); x != nil {
		x.eager = append(x.eager, f)
	}
}

// Observing reports that a guard / eager hook is being evaluated: shim operations must not
// change lock state and must not schedule.
func Observing() bool {
	x := active.Load()
	return x != nil && x.inPred > 0
}

// Exploring switches exploration on or off for the following part of the execution. While
// off, the deterministic default scheduler runs and no choice points are recorded (used to
// get through phases that another check explores, e.g. start-up).
func Exploring(on bool) {
	if x := active.Load(); x != nil {
		x.quiet = !on
	}
}

// AfterFunc runs fn on a thread of its own after d of virtual time; the returned function
// cancels it. Without an execution it is time.AfterFunc.
func AfterFunc(d time.Duration, fn func()) (stop func()) {
	x := active.Load()
	if x == nil {
		t := time.AfterFunc(d, fn)
		return func() { t.Stop() }
	}
	t := x.addTimer(d, 0, nil, fn)
	return func() { t.stopped = true }
}
