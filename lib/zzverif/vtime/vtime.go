// Package vtime is a drop-in replacement of the parts of "time" used by the instrumented
// files: under an active vrt execution the clock is virtual and owned by the scheduler.
package vtime

import (
	"context"
	"sync/atomic"
	"time"

	"github.com/flant/shell-operator/pkg/zzverif/vrt"
)

type (
	Duration = time.Duration
	Time     = time.Time
	Month    = time.Month
	Weekday  = time.Weekday
	Location = time.Location
)

const (
	Nanosecond  = time.Nanosecond
	Microsecond = time.Microsecond
	Millisecond = time.Millisecond
	Second      = time.Second
	Minute      = time.Minute
	Hour        = time.Hour
	RFC3339     = time.RFC3339
	RFC3339Nano = time.RFC3339Nano
)

var UTC = time.UTC

func ParseDuration(s string) (Duration, error) { return time.ParseDuration(s) }
func Unix(sec, nsec int64) Time                { return time.Unix(sec, nsec) }
func Date(y int, m Month, d, h, mi, s, ns int, l *Location) Time {
	return time.Date(y, m, d, h, mi, s, ns, l)
}

func Now() Time {
	if x := vrt.Active(); x != nil {
		return vrt.Epoch.Add(x.Now())
	}
	return time.Now()
}

func Since(t Time) Duration { return Now().Sub(t) }
func Until(t Time) Duration { return t.Sub(Now()) }

func Sleep(d Duration) {
	if vrt.Active() == nil {
		time.Sleep(d)
		return
	}
	vrt.SleepVirtual(d)
}

type Ticker struct {
	C    <-chan Time
	real *time.Ticker
	vt   *vrt.VTimer
}

func NewTicker(d Duration) *Ticker {
	if vrt.Active() == nil {
		r := time.NewTicker(d)
		return &Ticker{C: r.C, real: r}
	}
	ch, vt := vrt.NewVTimer(d, d)
	return &Ticker{C: ch, vt: vt}
}

func (t *Ticker) Stop() {
	if t.real != nil {
		t.real.Stop()
		return
	}
	t.vt.Stop()
}

func (t *Ticker) Reset(d Duration) {
	if t.real != nil {
		t.real.Reset(d)
		return
	}
	t.vt.Reset(d, d)
}

type Timer struct {
	C    <-chan Time
	real *time.Timer
	vt   *vrt.VTimer
}

func NewTimer(d Duration) *Timer {
	if vrt.Active() == nil {
		r := time.NewTimer(d)
		return &Timer{C: r.C, real: r}
	}
	ch, vt := vrt.NewVTimer(d, 0)
	return &Timer{C: ch, vt: vt}
}

func (t *Timer) Stop() bool {
	if t.real != nil {
		return t.real.Stop()
	}
	return t.vt.Stop()
}

func (t *Timer) Reset(d Duration) bool {
	if t.real != nil {
		return t.real.Reset(d)
	}
	return t.vt.Reset(d, 0)
}

func After(d Duration) <-chan Time { return NewTimer(d).C }

func Tick(d Duration) <-chan Time { return NewTicker(d).C }

// WithTimeout / WithDeadline are context.WithTimeout / WithDeadline on the virtual clock (call
// sites are routed here by the instrumenter): the deadline a callee reads (x/time/rate does)
// is a virtual instant, and the context is cancelled by a virtual timer.
type vctx struct {
	context.Context
	deadline time.Time
	expired  *atomic.Bool
}

func (c vctx) Deadline() (time.Time, bool) { return c.deadline, true }
func (c vctx) Err() error {
	if c.expired.Load() {
		return context.DeadlineExceeded
	}
	return c.Context.Err()
}

func WithTimeout(parent context.Context, d Duration) (context.Context, context.CancelFunc) {
	if vrt.Active() == nil {
		return context.WithTimeout(parent, d)
	}
	return WithDeadline(parent, Now().Add(d))
}

func WithDeadline(parent context.Context, at Time) (context.Context, context.CancelFunc) {
	if vrt.Active() == nil {
		return context.WithDeadline(parent, at)
	}
	if cur, ok := parent.Deadline(); ok && cur.Before(at) {
		return context.WithCancel(parent)
	}
	inner, cancel := context.WithCancel(parent)
	expired := &atomic.Bool{}
	stop := vrt.AfterFunc(at.Sub(Now()), func() {
		expired.Store(true)
		cancel()
	})
	return vctx{inner, at, expired}, func() { stop(); cancel() }
}
