// Package vsync is a drop-in replacement of the parts of "sync" used by the instrumented
// files. Under an active vrt execution every acquiring operation is a scheduling point with
// real blocking semantics; without one the types behave like their originals.
package vsync

import (
	"fmt"
	"sort"
	"sync"

	"github.com/flant/shell-operator/pkg/zzverif/vrt"
)

type Locker = sync.Locker

type Mutex struct {
	real   sync.Mutex
	locked bool
}

func (m *Mutex) Lock() {
	if vrt.Observing() {
		return
	}
	if vrt.Active() == nil {
		m.real.Lock()
		m.locked = true
		return
	}
	vrt.WaitAt(1, "Lock", func() bool { return !m.locked })
	m.locked = true
}

func (m *Mutex) TryLock() bool {
	if vrt.Observing() {
		return !m.locked
	}
	if vrt.Active() == nil {
		if m.real.TryLock() {
			m.locked = true
			return true
		}
		return false
	}
	vrt.WaitAt(1, "TryLock", nil)
	if m.locked {
		return false
	}
	m.locked = true
	return true
}

func (m *Mutex) Unlock() {
	if vrt.Observing() {
		return
	}
	if vrt.Active() == nil {
		m.locked = false
		m.real.Unlock()
		return
	}
	m.locked = false
}

// RWMutex models Go's writer preference: once a writer has announced itself new readers
// block, so a recursive read lock with a writer arriving in between deadlocks as it does
// in reality.
type RWMutex struct {
	real     sync.RWMutex
	readers  int
	writer   bool
	pendingW int
}

func (m *RWMutex) RLock() {
	if vrt.Observing() {
		return
	}
	if vrt.Active() == nil {
		m.real.RLock()
		return
	}
	vrt.WaitAt(1, "RLock", func() bool { return !m.writer && m.pendingW == 0 })
	m.readers++
}

func (m *RWMutex) RUnlock() {
	if vrt.Observing() {
		return
	}
	if vrt.Active() == nil {
		m.real.RUnlock()
		return
	}
	m.readers--
}

func (m *RWMutex) Lock() {
	if vrt.Observing() {
		return
	}
	if vrt.Active() == nil {
		m.real.Lock()
		return
	}
	// announce; acquire at once when possible
	announced := false
	vrt.WaitAt(1, "Lock", nil)
	if !m.writer && m.readers == 0 && m.pendingW == 0 {
		m.writer = true
		return
	}
	m.pendingW++
	announced = true
	vrt.WaitAt(1, "Lock(wait)", func() bool { return !m.writer && m.readers == 0 })
	if announced {
		m.pendingW--
	}
	m.writer = true
}

func (m *RWMutex) Unlock() {
	if vrt.Observing() {
		return
	}
	if vrt.Active() == nil {
		m.real.Unlock()
		return
	}
	m.writer = false
}

func (m *RWMutex) RLocker() sync.Locker { return (*rlocker)(m) }

type rlocker RWMutex

func (r *rlocker) Lock()   { (*RWMutex)(r).RLock() }
func (r *rlocker) Unlock() { (*RWMutex)(r).RUnlock() }

type Once struct {
	m    Mutex
	done bool
}

func (o *Once) Do(f func()) {
	o.m.Lock()
	defer o.m.Unlock()
	if !o.done {
		defer func() { o.done = true }()
		f()
	}
}

type WaitGroup struct {
	real sync.WaitGroup
	n    int
}

func (w *WaitGroup) Add(d int) {
	if vrt.Active() == nil {
		w.real.Add(d)
		return
	}
	w.n += d
}
func (w *WaitGroup) Done() { w.Add(-1) }
func (w *WaitGroup) Wait() {
	if vrt.Observing() {
		return
	}
	if vrt.Active() == nil {
		w.real.Wait()
		return
	}
	vrt.WaitAt(1, "WaitGroup.Wait", func() bool { return w.n <= 0 })
}

// Map wraps sync.Map: each operation is a scheduling point; Range visits keys in a
// deterministic (sorted) order.
type Map struct {
	real sync.Map
}

func point(kind string) {
	if vrt.Active() != nil && !vrt.Observing() {
		vrt.WaitAt(2, kind, nil)
	}
}

func (m *Map) Load(k any) (any, bool)            { point("Map.Load"); return m.real.Load(k) }
func (m *Map) Store(k, v any)                    { point("Map.Store"); m.real.Store(k, v) }
func (m *Map) Delete(k any)                      { point("Map.Delete"); m.real.Delete(k) }
func (m *Map) LoadOrStore(k, v any) (any, bool)  { point("Map.LoadOrStore"); return m.real.LoadOrStore(k, v) }
func (m *Map) LoadAndDelete(k any) (any, bool)   { point("Map.LoadAndDelete"); return m.real.LoadAndDelete(k) }
func (m *Map) Swap(k, v any) (any, bool)         { point("Map.Swap"); return m.real.Swap(k, v) }
func (m *Map) CompareAndSwap(k, o, n any) bool   { point("Map.CompareAndSwap"); return m.real.CompareAndSwap(k, o, n) }
func (m *Map) CompareAndDelete(k, o any) bool    { point("Map.CompareAndDelete"); return m.real.CompareAndDelete(k, o) }
func (m *Map) Clear()                            { point("Map.Clear"); m.real.Clear() }
func (m *Map) Range(f func(k, v any) bool) {
	point("Map.Range")
	type kv struct {
		k, v any
		s    string
	}
	var all []kv
	m.real.Range(func(k, v any) bool { all = append(all, kv{k, v, fmt.Sprint(k)}); return true })
	sort.Slice(all, func(i, j int) bool { return all[i].s < all[j].s })
	for _, e := range all {
		if !f(e.k, e.v) {
			return
		}
	}
}

// Pass-throughs for the rest of package sync, so that a file whose import was aliased keeps
// compiling whatever it uses. Pool never blocks; Cond is built on a Locker (vsync.Mutex
// satisfies it) but its Wait parks the goroutine outside the scheduler: not used by the
// repository at the pinned commit, kept only for compilation.
type (
	Pool = sync.Pool
	Cond = sync.Cond
)

func NewCond(l Locker) *Cond { return sync.NewCond(l) }

func OnceFunc(f func()) func() { return sync.OnceFunc(f) }

func OnceValue[T any](f func() T) func() T { return sync.OnceValue(f) }

func OnceValues[T1, T2 any](f func() (T1, T2)) func() (T1, T2) { return sync.OnceValues(f) }
