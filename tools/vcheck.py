#!/usr/bin/env python3
"""Driver for the /verif checks.

  ./check <ID> quick|thorough          run the check, write evidence/<ID>.json
  ./check <ID> --replay <path>         re-execute exactly one recorded case
  ./check setup                        pre-build tools and warm the go build cache
  ./check list                         list checks and parts

For every part of a check it (1) builds an overlay from /repo's *current working tree*
(instrumented copies of selected files where the part asks for it, the virtual zzverif
packages, the in-package harness files), (2) compiles one test binary with
`go test -c -overlay`, (3) runs it in N worker processes, (4) merges their results, applies
known_findings.json, writes the evidence file and prints VIOLATION / KNOWN-FINDING lines.

Exit codes: 0 held (or only listed known findings), 1 violation, 2 could not build or run.
"""
import hashlib
import json
import os
import shutil
import subprocess
import sys
import time
from concurrent.futures import ThreadPoolExecutor

VERIF = os.path.dirname(os.path.dirname(os.path.abspath(__file__)))
REPO = os.environ.get("VERIF_REPO", "/repo")
# VERIF_DEADLINE_SCALE: shorter per-part deadlines for smoke runs of a tier (a part that hits it reports exhaustive:false)
DEADLINE_SCALE = float(os.environ.get("VERIF_DEADLINE_SCALE", "1") or 1)
WORK = os.environ.get("VERIF_WORKROOT") or os.path.join(VERIF, ".work")  # VERIF_WORKROOT: a second run in parallel (own builds)
MODPATH = "github.com/flant/shell-operator"

sys.path.insert(0, os.path.join(VERIF, "tools"))
from registry import CHECKS  # noqa: E402


def goenv():
    env = dict(os.environ)
    env["GOFLAGS"] = "-mod=mod"
    env["GOPROXY"] = "off"
    env.pop("GOSUMDB", None)       # GOSUMDB=off breaks the go1.23.8 toolchain switch
    env.pop("GOTOOLCHAIN", None)   # go.mod demands 1.23.8 (cached); 'local' fails
    env["QUEUE_ACTIONS_METRICS"] = "no"
    return env


def log(*a):
    print(*a, file=sys.stderr, flush=True)


def fail_broken(msg):
    print("BROKEN: " + msg, flush=True)
    sys.exit(2)


def build_tools():
    """Build bin/vinstr (the source instrumenter) from files on disk."""
    os.makedirs(os.path.join(VERIF, "bin"), exist_ok=True)
    src = os.path.join(VERIF, "tools", "vinstr")
    if not os.path.isdir(src):
        return
    out = os.path.join(VERIF, "bin", "vinstr")
    newest = max(os.path.getmtime(os.path.join(src, f)) for f in os.listdir(src))
    if os.path.exists(out) and os.path.getmtime(out) >= newest:
        return
    env = goenv()
    env["GOTOOLCHAIN"] = "local"
    p = subprocess.run(["go", "build", "-o", out, "."], cwd=src, env=env,
                       stdout=subprocess.PIPE, stderr=subprocess.STDOUT, text=True)
    if p.returncode != 0:
        fail_broken("cannot build vinstr:\n" + p.stdout)


def make_overlay(cid, part, workdir):
    """Returns path of overlay.json for this part."""
    replace = {}
    # virtual packages
    libroot = os.path.join(VERIF, "lib", "zzverif")
    for d, _, files in os.walk(libroot):
        for f in files:
            if f.endswith(".go"):
                rel = os.path.relpath(os.path.join(d, f), libroot)
                replace[os.path.join(REPO, "pkg", "zzverif", rel)] = os.path.join(d, f)
    # harness files (in-package tests)
    hdir = os.path.join(VERIF, "harness", part["pkg"])
    for f in part["files"]:
        src = os.path.join(hdir, f)
        if not os.path.exists(src):
            fail_broken("harness file missing: " + src)
        replace[os.path.join(REPO, part["pkg"], f)] = src
    # extra harness files into other packages (e.g. seams that live next to the code)
    for pkg, files in part.get("extra", {}).items():
        for f in files:
            replace[os.path.join(REPO, pkg, f)] = os.path.join(VERIF, "harness", pkg, f)
    # instrumented copies of repo sources
    instr = part.get("instrument")
    if instr and part.get("race"):
        # free-running pass: goroutines, channel operations and selects stay the real ones (the
        # scheduler is not active); locks, clocks, seams and call replacements stay as in the
        # controlled build so that the same harness code compiles
        instr = json.loads(json.dumps(instr))
        for fc in instr.get("files", []):
            fc["conc"] = False
    if instr:
        build_tools()
        outdir = os.path.join(workdir, "instr-" + part["name"])
        shutil.rmtree(outdir, ignore_errors=True)
        os.makedirs(outdir)
        cfgpath = os.path.join(workdir, "instr-%s.json" % part["name"])
        with open(cfgpath, "w") as fh:
            json.dump(instr, fh)
        p = subprocess.run([os.path.join(VERIF, "bin", "vinstr"), "-repo", REPO, "-cfg", cfgpath,
                            "-out", outdir], stdout=subprocess.PIPE, stderr=subprocess.STDOUT, text=True)
        if p.returncode != 0:
            fail_broken("instrumenter failed (does the working tree parse?):\n" + p.stdout[-4000:])
        m = json.loads(p.stdout.strip().splitlines()[-1])
        replace.update(m)
    # mutant overlay (detection demonstrations): VERIF_EXTRA_OVERLAY=json file {orig: replacement}
    extra = os.environ.get("VERIF_EXTRA_OVERLAY")
    if extra:
        replace.update(json.load(open(extra)))
    ov = os.path.join(workdir, "overlay-%s.json" % part["name"])
    with open(ov, "w") as fh:
        json.dump({"Replace": replace}, fh, indent=1)
    return ov


def build_part(cid, part, workdir):
    ov = make_overlay(cid, part, workdir)
    binpath = os.path.join(workdir, part["name"] + ".test")
    # never let `-mod=mod` touch /repo/go.mod: build against a private copy of go.mod/go.sum
    for f in ("go.mod", "go.sum"):
        shutil.copy(os.path.join(REPO, f), os.path.join(workdir, f))
    cmd = ["go", "test", "-c", "-overlay", ov, "-vet=off", "-modfile=" + os.path.join(workdir, "go.mod"), "-o", binpath]
    if part.get("race"):
        cmd.append("-race")
    cmd.append("./" + part["pkg"])
    t0 = time.time()
    p = subprocess.run(cmd, cwd=REPO, env=goenv(), stdout=subprocess.PIPE, stderr=subprocess.STDOUT, text=True)
    if p.returncode != 0 or not os.path.exists(binpath):
        fail_broken("build of part %s failed (working tree or harness does not compile):\n%s" % (part["name"], p.stdout[-6000:]))
    log("  built %s in %.1fs" % (part["name"], time.time() - t0))
    return binpath


def run_shard(binpath, part, tier, shard, shards, workdir, only_case=None, seed=0, deadline_at=0):
    out = os.path.join(workdir, "%s.%d.json" % (part["name"], shard))
    logf = os.path.join(workdir, "%s.%d.log" % (part["name"], shard))
    for f in (out, out + ".states", out + ".outcomes", out + ".nontriv"):
        if os.path.exists(f):
            os.remove(f)
    env = goenv()
    deadline = int(part.get("deadline_s", {}).get(tier, 600 if tier == "quick" else 1800) * DEADLINE_SCALE)
    if deadline_at:
        env["VERIF_DEADLINE_AT"] = str(int(deadline_at))
    env.update({"VERIF_TIER": tier, "VERIF_SHARD": str(shard), "VERIF_SHARDS": str(shards),
                "VERIF_OUT": out, "VERIF_SEED": str(seed), "VERIF_DEADLINE_S": str(deadline),
                "VERIF_REPO": REPO, "VERIF_DIR": VERIF, "VERIF_WORK": workdir,
                "GOMAXPROCS": str(part.get("gomaxprocs", 2))})
    if only_case is not None:
        env["VERIF_ONLY_CASE"] = only_case
    env.update(part.get("env", {}))
    if part.get("race"):
        # free-running race-detector pass: reports go to files the harness reads back itself
        racelog = os.path.join(workdir, "race-%s-%d" % (part["name"], shard))
        for f in os.listdir(workdir):
            if f.startswith(os.path.basename(racelog) + "."):
                os.remove(os.path.join(workdir, f))
        env["GORACE"] = "log_path=%s halt_on_error=0 exitcode=0" % racelog
        env["VERIF_RACELOG"] = racelog
        env["VERIF_OVERLAY"] = os.path.join(workdir, "overlay-%s.json" % part["name"])
        env["VERIF_INSTRCFG"] = os.path.join(workdir, "instr-%s.json" % part["name"])
    cmd = [binpath, "-test.run", "^%s$" % part["run"], "-test.timeout", "0", "-test.count", "1"]
    memkb = part.get("mem_kb", 12 * 1024 * 1024)
    sh = "ulimit -v %d; exec \"$@\"" % memkb
    with open(logf, "w") as lf:
        try:
            cwd = os.path.join(REPO, part["pkg"])
            if not os.path.isdir(cwd):
                cwd = REPO  # virtual package (exists only in the overlay)
            p = subprocess.run(["bash", "-c", sh, "x"] + cmd, cwd=cwd, env=env,
                               stdout=lf, stderr=subprocess.STDOUT, timeout=deadline * 2 + 120)
            rc = p.returncode
        except subprocess.TimeoutExpired:
            rc = -9
    res = None
    if os.path.exists(out):
        try:
            res = json.load(open(out))
        except Exception:
            res = None
    return {"rc": rc, "res": res, "log": logf, "out": out}


def crash_signature(part, tail):
    """A Go panic / fatal error whose first non-runtime frame is repository code."""
    if "panic:" not in tail and "fatal error:" not in tail:
        return None
    frames = [ln.strip() for ln in tail.splitlines() if ln.startswith("\t/")]
    for fr in frames:
        if "/runtime/" in fr or "/testing/" in fr:
            continue
        if "zz_verif" in fr or "/zzverif/" in fr:
            return None          # harness code on top: a harness bug, report as broken
        if fr.startswith("\t" + REPO + "/") or fr.startswith(REPO + "/"):
            f = fr.split(":")[0].replace(REPO + "/", "")
            return "%s crash in %s" % (part["name"], f)
        return None
    return None


def read_keys(path):
    s = set()
    if os.path.exists(path):
        b = open(path, "rb").read()
        for i in range(0, len(b) - 11, 12):
            s.add(b[i:i + 12])
    return s


def load_known():
    p = os.path.join(VERIF, "known_findings.json")
    if not os.path.exists(p):
        return []
    return json.load(open(p)).get("findings", [])


def main():
    if len(sys.argv) < 2:
        print(__doc__)
        sys.exit(2)
    if sys.argv[1] == "list":
        for cid, c in CHECKS.items():
            print(cid, [p["name"] for p in c["parts"]])
        return
    if sys.argv[1] == "setup":
        return setup()
    cid = sys.argv[1]
    if cid not in CHECKS:
        fail_broken("unknown check " + cid)
    check = CHECKS[cid]
    tier = "quick"
    replay = None
    args = sys.argv[2:]
    if args and args[0] == "--replay":
        replay = json.load(open(args[1]))
        tier = replay.get("tier", "quick")
    elif args:
        tier = args[0]
    if "VERIF_TIER" in os.environ and len(args) == 0:
        tier = os.environ["VERIF_TIER"]
    if tier not in ("quick", "thorough"):
        fail_broken("tier must be quick or thorough")
    seed = int(os.environ.get("VERIF_SEED", "0") or 0)
    only_parts = os.environ.get("VERIF_PARTS")
    t0 = time.time()
    workdir = os.path.join(WORK, cid)
    os.makedirs(workdir, exist_ok=True)

    parts = [p for p in check["parts"] if tier in p.get("tiers", ("quick", "thorough"))]
    if replay:
        parts = [p for p in parts if p["name"] == replay["part"]]
    if only_parts:
        parts = [p for p in parts if p["name"] in only_parts.split(",")]
    merged_parts = []
    violations = []
    broken = []
    # build all parts first (sequentially: go build already uses all cores)
    bins = {}
    for part in parts:
        log("[%s] building part %s" % (cid, part["name"]))
        bins[part["name"]] = build_part(cid, part, workdir)
    for part in parts:
        shards = 1 if replay else part.get("shards", {}).get(tier, 1)
        log("[%s] running part %s (%d shard(s), tier %s)" % (cid, part["name"], shards, tier))
        part_deadline = int(part.get("deadline_s", {}).get(tier, 600 if tier == "quick" else 1800) * DEADLINE_SCALE)
        deadline_at = 0 if replay else time.time() + part_deadline
        with ThreadPoolExecutor(max_workers=min(shards, 16)) as ex:
            futs = [ex.submit(run_shard, bins[part["name"]], part, tier, s, shards, workdir,
                              replay["case"] if replay else None, seed, deadline_at) for s in range(shards)]
            outs = [f.result() for f in futs]
        m = {"part": part["name"], "evaluations": 0, "transitions": 0, "states": 0, "outcomes": 0,
             "distinct_nontrivial": 0, "exhaustive": True, "bounds": {}, "caps_hit": [], "samples": [],
             "notes": [], "counters": {}, "violation_count": 0, "by_sig": {}, "wall_s": 0.0}
        st, oc, nt = set(), set(), set()
        for o in outs:
            r = o["res"]
            if r is None:
                tail = ""
                try:
                    tail = open(o["log"]).read()[-3000:]
                except Exception:
                    pass
                crash = crash_signature(part, tail)
                if crash and o["rc"] not in (-9,):
                    # the code under test panicked on a goroutine of its own (not recoverable by
                    # the harness): a crash inside repository code is a violation, not a broken check
                    violations.append({"signature": crash, "what": "process crashed in repository code: " + tail[-1500:],
                                       "case": "", "part": part["name"]})
                    m["violation_count"] += 1
                    m["by_sig"][crash] = m["by_sig"].get(crash, 0) + 1
                    m["exhaustive"] = False
                    continue
                broken.append("part %s shard produced no result (rc=%s)\n%s" % (part["name"], o["rc"], tail))
                continue
            m["evaluations"] += r["evaluations"]
            m["transitions"] += r["transitions"]
            if shards > 1:
                st |= read_keys(o["out"] + ".states")
                oc |= read_keys(o["out"] + ".outcomes")
                nt |= read_keys(o["out"] + ".nontriv")
                m["states"] += r.get("extra_states", 0)
            else:
                m["states"] += r["states"]
                m["outcomes"] += r["outcomes"]
                m["distinct_nontrivial"] += r["distinct_nontrivial"]
            m["exhaustive"] = m["exhaustive"] and r["exhaustive"]
            m["bounds"].update(r.get("bounds") or {})
            for c in r.get("caps_hit") or []:
                if c not in m["caps_hit"]:
                    m["caps_hit"].append(c)
            if len(m["samples"]) < 4:
                m["samples"].extend((r.get("samples") or [])[:2])
            for n in r.get("notes") or []:
                if n not in m["notes"] and len(m["notes"]) < 30:
                    m["notes"].append(n)
            for k, v in (r.get("counters") or {}).items():
                m["counters"][k] = m["counters"].get(k, 0) + v
            m["violation_count"] += r["violation_count"]
            for k, v in (r.get("violations_by_signature") or {}).items():
                m["by_sig"][k] = m["by_sig"].get(k, 0) + v
            m["wall_s"] = max(m["wall_s"], r["wall_s"])
            for v in r.get("violations") or []:
                v["part"] = part["name"]
                violations.append(v)
        if shards > 1:
            m["states"] += len(st)
            m["outcomes"] = len(oc)
            m["distinct_nontrivial"] = len(nt)
        merged_parts.append(m)

    if broken:
        for b in broken:
            print("BROKEN: " + b)
        sys.exit(2)

    # known findings
    known = [k for k in load_known() if k.get("property") == cid and k.get("kind") == "finding"]
    known_seen = {}
    real = []
    sig_counts = {}
    for m in merged_parts:
        for k, v in m["by_sig"].items():
            sig_counts[k] = sig_counts.get(k, 0) + v
    for v in violations:
        hit = None
        for k in known:
            if v["signature"] == k["signature"]:
                hit = k
                break
        if hit:
            known_seen.setdefault(hit["signature"], hit)
        else:
            real.append(v)
    # signatures whose individual violations were truncated still count
    for sig in sig_counts:
        if not any(v["signature"] == sig for v in violations):
            real.append({"signature": sig, "what": "(details truncated)", "case": "", "part": "?"})

    os.makedirs(os.path.join(VERIF, "replays"), exist_ok=True)
    lines = []
    seen_sigs = set()
    for v in real:
        if v["signature"] in seen_sigs:
            continue
        seen_sigs.add(v["signature"])
        h = hashlib.sha256((v["signature"] + v["case"]).encode()).hexdigest()[:10]
        rp = os.path.join(VERIF, "replays", "%s-%s.json" % (cid, h))
        with open(rp, "w") as fh:
            json.dump({"property": cid, "part": v.get("part"), "tier": tier, "case": v["case"],
                       "signature": v["signature"], "what": v["what"], "detail": v.get("detail")}, fh, indent=1)
        lines.append("VIOLATION property=%s replay=%s  # %s: %s" % (cid, rp, v["signature"], v["what"][:300]))
    for sig, k in known_seen.items():
        print("KNOWN-FINDING: property=%s %s" % (cid, k["what"]))

    if not replay and not os.environ.get("VERIF_NO_EVIDENCE") and not only_parts:
        # evidence describes a complete run of the check on the tree as it is; partial runs
        # (VERIF_PARTS) and runs against a deliberately changed tree (tools/seedtest.sh) leave it alone
        write_evidence(cid, check, tier, seed, merged_parts, len(real), known_seen, time.time() - t0)
    for m in merged_parts:
        print("part %-14s evaluations=%d states=%d transitions=%d outcomes=%d nontrivial=%d exhaustive=%s violations=%d %s" % (
            m["part"], m["evaluations"], m["states"], m["transitions"], m["outcomes"], m["distinct_nontrivial"],
            m["exhaustive"], m["violation_count"], ("caps=" + ",".join(m["caps_hit"])[:400]) if m["caps_hit"] else ""))
        if m["evaluations"] > 20 and m["outcomes"] <= 1:
            print("WARNING vacuous part=%s (one outcome from %d cases)" % (m["part"], m["evaluations"]))
    for ln in lines:
        print(ln)
    if lines:
        sys.exit(1)
    print("OK property=%s tier=%s wall=%.1fs" % (cid, tier, time.time() - t0))
    sys.exit(0)


def write_evidence(cid, check, tier, seed, parts, nviol, known_seen, wall):
    ev = {
        "property_id": cid,
        "tier": tier,
        "seed": seed,
        "level": check.get("level", "model_checking"),
        "coverage": {
            "states": max(1, sum(p["states"] for p in parts)),
            "transitions": max(1, sum(p["transitions"] for p in parts)),
            "traces_validated_against_impl": sum(p["evaluations"] for p in parts),
            "evaluations": sum(p["evaluations"] for p in parts),
            "distinct_nontrivial": sum(p["distinct_nontrivial"] for p in parts),
            "distinct_outcomes": sum(p["outcomes"] for p in parts),
            "rule": check.get("rule", ""),
            "samples": [s for p in parts for s in p["samples"]][:8] or ["(no samples recorded)"],
            "exhaustive": all(p["exhaustive"] for p in parts),
            "caps_hit": sorted({c for p in parts for c in p["caps_hit"]}),
            "explanation": check.get("explanation", ""),
            "parts": [{k: p[k] for k in ("part", "evaluations", "states", "transitions", "outcomes",
                                          "distinct_nontrivial", "exhaustive", "bounds", "caps_hit", "counters",
                                          "notes", "wall_s")} for p in parts],
            "known_findings_seen": sorted(known_seen.keys()),
        },
        "assumptions": check.get("assumptions", []),
        "wall_s": round(wall, 2),
        "violations": nviol,
    }
    os.makedirs(os.path.join(VERIF, "evidence"), exist_ok=True)
    with open(os.path.join(VERIF, "evidence", cid + ".json"), "w") as fh:
        json.dump(ev, fh, indent=1)


def setup():
    build_tools()
    # warm the build cache: compile every harness package once
    seen = set()
    for cid, c in CHECKS.items():
        for part in c["parts"]:
            key = (part["pkg"], bool(part.get("instrument")), bool(part.get("race")))
            if key in seen:
                continue
            seen.add(key)
            wd = os.path.join(WORK, "_setup")
            os.makedirs(wd, exist_ok=True)
            try:
                build_part(cid, part, wd)
            except SystemExit:
                log("setup: warm build of %s failed (ignored)" % part["name"])
    shutil.rmtree(os.path.join(WORK, "_setup"), ignore_errors=True)
    print("setup done")


if __name__ == "__main__":
    main()
