#!/bin/bash
# usage: tools/seedtest.sh <CHECK-ID> <patch.diff> [tier]
# Applies a seeded change to /repo, runs the check, and undoes the change straight afterwards.
id=$1; patch=$2; tier=${3:-quick}
cd /verif; exec 9>/tmp/repo.lock; flock 9
p=$(realpath "$patch")
git -C /repo apply --recount "$p" 2>/dev/null || (cd /repo && patch -p1 -F3 -s --no-backup-if-mismatch < "$p") || { echo "patch does not apply"; git -C /repo checkout -- .; git -C /repo clean -fq -- '*.rej' '*.orig'; echo "exit="; exit 3; }
VERIF_NO_EVIDENCE=1 ./check $id $tier > /tmp/seedtest.$$.out 2>&1; rc=$?
git -C /repo checkout -- . 
grep -E "^(VIOLATION|KNOWN|OK|BROKEN|part )" /tmp/seedtest.$$.out | cut -c1-400
echo "exit=$rc"
rm -f /tmp/seedtest.$$.out
