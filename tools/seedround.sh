#!/bin/bash
# usage: tools/seed2.sh <ID> <C|D> <pkgdir> <run-regexp> [extra check ids...]
# confirm a round-2 seed in its worktree, then run the property's check (and extra checks) against it
id=$1; suf=$2; pkg=$3; run=$4; shift 4
wt=${SEEDBASE:-/tmp/seed3}/$id; d=$wt/_out/$id-$suf.diff; demo=$wt/_out/$id-${suf}_demo_test.go.txt
echo "##### $id-$suf confirm"
/verif/tools/seedconfirm.sh $wt $d $demo $pkg "$run" 2>&1 | grep -v '^{"level"' | tail -14
for c in $id "$@"; do
  echo "##### $id-$suf vs check $c"
  /verif/tools/seedtest.sh $c $d 2>&1 | cut -c1-330 | awk 'NR<=6 || /^exit=/'
done
