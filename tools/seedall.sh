#!/bin/bash
# tools/seedall.sh [names...] — run every seeded change against the check of its property (and the
# cross-detecting check recorded in meta.json "detected_by") and print one line per change.
cd /verif
names="$*"; [ -n "$names" ] || names=$(ls seeded)
for n in $names; do
  prop=$(python3 -c "import json;print(json.load(open('seeded/$n/meta.json'))['property'])")
  by=$(python3 -c "import json;print(' '.join(json.load(open('seeded/$n/meta.json')).get('detected_by',[])))")
  [ -n "$by" ] || by=$prop
  res=""
  for c in $by; do
    out=$(tools/seedtest.sh $c seeded/$n/patch.diff 2>&1)
    rc=$(echo "$out" | sed -n 's/^exit=//p')
    sig=$(echo "$out" | grep -m1 '^VIOLATION' | sed 's/.*# //' | cut -c1-110)
    res="$res $c:exit=$rc"
    [ "$rc" = "1" ] && { res="$res [$sig]"; break; }
  done
  echo "$n$res"
done
