#!/bin/bash
# tools/benignall.sh [out] — re-run every behaviour-preserving patch of benign/ against the same
# checks as recorded in benign/RESULTS.txt (the property's own check and its neighbours) and
# print one line per run; any exit other than 0 is a false alarm (or BROKEN) to be looked at.
cd /verif
out=${1:-/dev/stdout}
awk '{print $1, $3}' benign/RESULTS.txt | while read name chk; do
  res=$(tools/seedtest.sh $chk benign/$name.diff 2>&1)
  rc=$(echo "$res" | sed -n 's/^exit=//p')
  echo "$name vs $chk exit=$rc $(echo "$res" | grep -m1 -E '^(VIOLATION|BROKEN|patch does not)' | cut -c1-160)" >> $out
done
