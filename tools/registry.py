"""Registry of checks: which harness parts decide which property."""

def part(name, pkg, run, files, **kw):
    d = {"name": name, "pkg": pkg, "run": run, "files": files}
    d.update(kw)
    return d

CHECKS = {
    "C05": {
        "level": "model_checking",
        "engine": "E2",
        "technique": "explicit-state enumeration of operation sequences on the real queue vs reference list",
        "level_text": "Every sequence of the public queue operations up to depth 4 (quick) / 5 (thorough) over a 24-operation alphabet with present, absent and duplicated ids, plus BFS over canonical states to depth 7/10, and every sequence of scripted handler results (Success/Keep/Fail/Repeat x head/after/tail lists x delay x an operation issued inside the handler) of depth 2/3 through the real Start() worker loop, is executed on the real TaskQueue and compared with a slice reference after every step. Bounded-exhaustive: nothing outside the alphabet/depth is covered.",
        "level_note": "Trusted: the Go reference list in the harness; task.BaseTask. Handler-result part runs the worker with 20us timing constants in real time (liveness only; no clock oracle). Concurrency of queue operations is covered by C03/C07/C17, not here.",
        "rule": "every sequence of public queue operations (24-op alphabet over present/absent/duplicate ids) up to the stated depth on the real TaskQueue vs a slice reference, plus BFS over canonical states; every sequence of scripted handler results through the real Start() worker loop. Non-trivial = uses an operation other than AddLast / a handler step other than plain Success; distinct = distinct final queue content",
        "assumptions": ["part b uses real time with 20us timing constants for liveness only; the oracle looks at queue content at handler entry and in AfterHandle, never at the clock"],
        "parts": [
            part("c05a", "pkg/task/queue", "TestVerifC05a", ["zz_verif_c05_test.go"], shards={"quick": 4, "thorough": 16}),
            part("c05b", "pkg/task/queue", "TestVerifC05b", ["zz_verif_c05_test.go"], shards={"quick": 8, "thorough": 16}),
        ],
    },
}
