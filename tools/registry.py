"""Registry of checks: which harness parts decide which property."""

def part(name, pkg, run, files, **kw):
    d = {"name": name, "pkg": pkg, "run": run, "files": files}
    d.update(kw)
    return d

# operator-level fixture: process seam (executor), cron firing helper, queue wrapper call sites
FX_EXTRA = {"pkg/executor": ["zz_verif_seam.go"], "pkg/schedule_manager": ["zz_verif_seam.go"], "pkg/task/queue": ["zz_verif_seam.go"]}
FX_INSTR = {"files": [
    {"path": "pkg/executor/executor.go", "calls": {"e.cmd.Run": "@zzCmdRun", "e.cmd.Output": "@zzCmdOutput"}},
    {"path": "pkg/shell-operator/operator.go", "calls": {"op.AdmissionWebhookManager.Start": "@zzNoopAdmStart", "op.ConversionWebhookManager.Start": "@zzNoopConvStart"}},
    {"path": "pkg/task/queue/task_queue.go", "seams": {"TaskQueue.WithHandler": "zzSeamWithHandler"}},
]}

# kube events manager under the scheduler: locks/channels/goroutines/racy flags are scheduling
# points, client-go informers are replaced by the hub seam
KEM_INSTR = [
    {"path": "pkg/kube_events_manager/resource_informer.go", "sync": True, "conc": True, "touch": ["stopped"]},
    {"path": "pkg/kube_events_manager/monitor.go", "sync": True, "conc": True, "touch": ["eventsEnabled"]},
    {"path": "pkg/kube_events_manager/kube_events_manager.go", "conc": True},
    {"path": "pkg/kube_events_manager/namespace_informer.go", "conc": True, "touch": ["stopped"], "seams": {"namespaceInformer.start": "zzSeamNsStart"}},
    {"path": "pkg/kube_events_manager/factory.go", "seams": {"FactoryStore.Start": "zzSeamFactoryStart", "FactoryStore.Stop": "zzSeamFactoryStop"}},
]

# the whole operator under the scheduler (level 2): queues, events handler, controllers,
# schedule manager and the kube events manager are instrumented; informers, hook processes,
# HTTP server, metrics loops and cron's goroutine are behind seams
OP_EXTRA = {"pkg/executor": ["zz_verif_seam.go"], "pkg/schedule_manager": ["zz_verif_seam.go"], "pkg/kube_events_manager": ["zz_verif_hub.go"], "pkg/task/queue": ["zz_verif_seam.go"]}
# dir-level rule: a lock that appears in any other file of these packages becomes a scheduling
# point too (a real mutex contended between scheduler threads would hang the run)
OP_DIRS = [{"dir": d, "sync": True} for d in ("pkg/hook", "pkg/hook/controller", "pkg/hook/binding_context", "pkg/shell-operator",
                                              "pkg/task/queue", "pkg/kube_events_manager", "pkg/schedule_manager", "pkg/executor",
                                              "pkg/webhook/admission", "pkg/webhook/conversion")]
OP_INSTR = {"dirs": OP_DIRS, "files": KEM_INSTR + [
    {"path": "pkg/executor/executor.go", "calls": {"e.cmd.Run": "@zzCmdRun", "e.cmd.Output": "@zzCmdOutput"}},
    {"path": "pkg/shell-operator/operator.go", "time": True, "conc": True,
     "calls": {"?context.WithTimeout": "time.WithTimeout", "?context.WithDeadline": "time.WithDeadline", "op.APIServer.Start": "@zzNoopAPIStart", "op.runMetrics": "@zzNoopRunMetrics", "op.ScheduleManager.Start": "@zzNoopSchedStart",
               "op.AdmissionWebhookManager.Start": "@zzNoopAdmStart", "op.ConversionWebhookManager.Start": "@zzNoopConvStart"}},
    {"path": "pkg/shell-operator/manager_events_handler.go", "conc": True},
    {"path": "pkg/task/queue/task_queue.go", "sync": True, "time": True, "conc": True, "touch": ["started", "q.Status"], "seams": {"TaskQueue.WithHandler": "zzSeamWithHandler"}},
    {"path": "pkg/task/queue/queue_set.go", "sync": True, "time": True, "conc": True, "touch": ["q.Status"], "mapranges": ["tqs.Queues"]},
    {"path": "pkg/hook/controller/kubernetes_bindings_controller.go", "sync": True, "conc": True},
    {"path": "pkg/hook/controller/schedule_bindings_controller.go", "sync": True},
    {"path": "pkg/schedule_manager/schedule_manager.go", "conc": True},
    {"path": "pkg/utils/exponential_backoff/delay.go", "calls": {"rand.Int64N": "vrt.Int64N"}},
]}

CHECKS = {
    "C05": {
        "level": "model_checking",
        "engine": "E2",
        "technique": "explicit-state enumeration of operation sequences on the real queue vs reference list; stateless model checking (pre-emption-bounded) of concurrent queue operations against all sequential orders",
        "level_text": "Every sequence of the public queue operations up to depth 4 (quick) / 5 (thorough) over a 24-operation alphabet with present, absent and duplicated ids, plus BFS over canonical states to depth 7/10, and every sequence of scripted handler results (Success/Keep/Fail/Repeat x head/after/tail lists x delay x an operation issued inside the handler) of depth 2/3 through the real Start() worker loop (the three lists a handler returns being sub-slices of one backing array with spare capacity; filter predicates that carry state included), is executed on the real TaskQueue and compared with a slice reference after every step. Part c (controlled scheduler, pre-emption bound 2 quick / 3 thorough): every pair (thorough: and every triple of a 12-operation alphabet) of operations issued from two / three threads on four initial layouts - final content and removals' return values must be those of the operations in some order - and the real worker handling the head with six scripted results while another thread issues one of nine operations: nothing lost, duplicated or invented, initial tasks keep their relative order, no empty slot, right length. Bounded-exhaustive: nothing outside the alphabets/depths/bounds is covered. Iterate is one of the observed operations (with a yield inside its callback in part c).",
        "level_note": "Trusted: the Go reference list in the harness; task.BaseTask. Handler-result part runs the worker with 20us timing constants in real time (liveness only; no clock oracle). Part c compiles task_queue.go with its lock operations as scheduling points; the queue inside the assembled operator is covered by C03/C07/C17.",
        "rule": "every sequence of public queue operations (24-op alphabet over present/absent/duplicate ids) up to the stated depth on the real TaskQueue vs a slice reference, plus BFS over canonical states; every sequence of scripted handler results through the real Start() worker loop. Non-trivial = uses an operation other than AddLast / a handler step other than plain Success; distinct = distinct final queue content",
        "assumptions": ["part b uses real time with 20us timing constants for liveness only; the oracle looks at queue content at handler entry and in AfterHandle, never at the clock"],
        "parts": [
            part("c05a", "pkg/task/queue", "TestVerifC05a", ["zz_verif_c05_test.go"], shards={"quick": 4, "thorough": 16}),
            part("c05b", "pkg/task/queue", "TestVerifC05b", ["zz_verif_c05_test.go"], shards={"quick": 8, "thorough": 16}),
            part("c05c", "pkg/task/queue", "TestVerifC05c", ["zz_verif_c05_test.go", "zz_verif_c05c_test.go"], shards={"quick": 12, "thorough": 16}, gomaxprocs=1,
                 instrument={"files": [{"path": "pkg/task/queue/task_queue.go", "sync": True, "time": True, "conc": True, "touch": ["started", "q.Status"]}]}),
        ],
    },
    "C07": {
        "level": "model_checking",
        "engine": "E2",
        "technique": "exhaustive enumeration of queue layouts on the real combine functions vs reference; stateless model checking (pre-emption-bounded) of combine vs concurrent appends",
        "level_text": "Every queue layout of length <= 4 (quick) / 5 (thorough) over a 17-kind task alphabet (2 hooks x HookRun/EnableKubernetesBindings/no-metadata x context group shapes incl. repeated and interleaved groups x monitor ids) is loaded into a real TaskQueue; both the private combine function and its exported twin are called on the head and compared with a reference written from the statement on full context sequences, monitor ids and remaining queue content. Tasks carry the task-level group; one task shape is a head that took an ungrouped context in during an earlier failed execution.",
        "level_note": "Trusted: the reference in the harness. Part b: a thread appending 1-2 tasks while the real combine function runs on the instrumented queue, all interleavings within 2 (quick) / 3 (thorough) pre-emptions; every context must be either in the combined result or still queued, exactly once, in order. Retries of a combined task are covered by C04.",
        "rule": "all layouts (product enumeration) of tasks from the alphabet; non-trivial = something was merged; distinct = distinct (contexts, monitor ids, remaining queue) outcome",
        "parts": [
            part("c07a", "pkg/shell-operator", "TestVerifC07a", ["zz_verif_c07_test.go"], shards={"quick": 8, "thorough": 16}),
            part("c07b", "pkg/shell-operator", "TestVerifC07b", ["zz_verif_c07_test.go"], shards={"quick": 4, "thorough": 8}, gomaxprocs=1,
                 instrument={"files": [{"path": "pkg/task/queue/task_queue.go", "sync": True, "time": True, "conc": True, "touch": ["started", "q.Status"]},
                                       {"path": "pkg/task/queue/queue_set.go", "sync": True, "time": True, "conc": True, "touch": ["q.Status"], "mapranges": ["tqs.Queues"]}]}),
        ],
    },
    "C15": {
        "level": "model_checking",
        "engine": "E2",
        "technique": "exhaustive enumeration of rule graphs x queries x cache histories x map orders on the real chain search vs BFS reachability; exhaustive enumeration of step outcomes through the real conversion handler",
        "level_text": "Part a: every set of conversion rules up to a size bound (<=2 quick / 3 thorough rules over 48 spellings of versions {v1,v1beta1,v2,v3} with and without the group; <=4/6 over 12 short rules; <=7/9 of an 11-rule chain/fork graph over v1..v7) is loaded into the real ChainStorage; every (from,to) request in every spelling is asked on a fresh storage and on storages whose path cache was filled by the other requests, under three controlled map iteration orders. Oracle: chain returned iff reachable by reference BFS, and every returned chain consists of declared rules, starts at from, ends at to, consecutive steps match. Part b: a two-step chain served by two hooks through the operator's own conversion webhook manager, the real HTTP handler and conversionEventHandler, for all 36 pairs of step outcomes (converted, failedMessage, failedMessage together with a full object list, exit 1, empty response, short object list) x {two bindings with one rule each, one binding with both rules}, followed by the same request for a second CRD with the same version names and another graph: the review succeeds iff every step converted, the answer carries the last step's objects, a failed step stops the chain and its message is relayed, the UID is echoed.",
        "level_note": "Trusted: reference BFS and version matching in the harness, the process stand-in in part b. chain.go is compiled with its map ranges routed through vrt.Keys (order chosen by the harness); Go's own random order is thereby replaced by 3 fixed orders. Requests naming a group other than the CRD's are outside the statement and not enumerated. Bounded to the stated universe.",
        "rule": "all subsets of the rule universe up to the size bound x all queries x {fresh, cached-fwd, cached-bwd} x 3 map orders; non-trivial = chain of >= 2 steps; distinct = distinct (rules, request, chain)",
        "parts": [
            part("c15a", "pkg/webhook/conversion", "TestVerifC15a", ["zz_verif_c15_test.go"], shards={"quick": 8, "thorough": 16},
                 instrument={"files": [{"path": "pkg/webhook/conversion/chain.go",
                                        "mapranges": ["c.PathsCache", "c.BaseFromToIndex", "c.BaseFromToIndex[k]", "c.BaseFromToIndex[fromVer]", "newPaths"]}]}),
            part("c15b", "pkg/shell-operator", "TestVerifC15b", ["zz_verif_c15_test.go", "zz_verif_fixture_test.go"], shards={"quick": 6, "thorough": 6},
                 extra=FX_EXTRA, instrument=FX_INSTR),
        ],
    },
    "C11": {
        "level": "model_checking",
        "engine": "E2",
        "technique": "exhaustive enumeration of add/remove histories on the real schedule manager and of schedule-binding topologies through the real tick-to-task path; stateless model checking (pre-emption-bounded) of simultaneous firings against one consumer",
        "level_text": "Part a: every sequence of Add/Remove of (crontab,id) pairs (2 crontabs x 2 ids, repeats and unknown pairs) up to depth 5 (quick) / 7 (thorough) on the real scheduleManager with the real cron library; after every step the registered set, the number of cron jobs and the messages produced by one injected firing of every job are compared with a reference-count model. Part b: every assignment of up to 2+2 schedule bindings to 2 hooks (shared/distinct crontabs incl. a column-aligned spelling of one, queues, groups, allowFailure, includeSnapshotsFrom, named/unnamed) with enable/disable sequences; one tick of each crontab through the real schedule handler must yield exactly one task per enabled binding with that crontab carrying its attributes. Part c (controlled scheduler, pre-emption bound 2 / 6): 2..4 distinct crontabs fire at the same instant, one thread per job as the cron library does, a fast or slow consumer of the schedule channel - every firing arrives exactly once.",
        "level_note": "Trusted: cron parsing/Entries of robfig/cron (never started; a firing is Job.Run()), reference models in the harnesses. Hook configurations are loaded through the real HookManager.Init with the hook process replaced by an in-process stand-in that answers --config.",
        "rule": "all op sequences / all binding topologies in the stated bounds; non-trivial = contains a Remove / more than one binding; distinct = distinct live set / task list",
        "parts": [
            part("c11a", "pkg/schedule_manager", "TestVerifC11a", ["zz_verif_c11_test.go"], shards={"quick": 4, "thorough": 16}),
            part("c11c", "pkg/schedule_manager", "TestVerifC11c", ["zz_verif_c11c_test.go"], shards={"quick": 6, "thorough": 6}, gomaxprocs=1,
                 instrument={"files": [{"path": "pkg/schedule_manager/schedule_manager.go", "sync": True, "conc": True}]}),
            part("c11b", "pkg/shell-operator", "TestVerifC11b", ["zz_verif_c11_test.go", "zz_verif_fixture_test.go"], shards={"quick": 8, "thorough": 16},
                 extra=FX_EXTRA, instrument=FX_INSTR),
        ],
    },
    "C16": {
        "level": "model_checking",
        "engine": "E2",
        "technique": "exhaustive enumeration of metric batch histories on the real storage vs reference registry (full Gather() comparison)",
        "level_text": "Every history of 1-2 (thorough: up to 3) batches of 1-2 (thorough: 3) operation documents from a 21-operation alphabet (ungrouped add/set/observe, grouped add/set/expire, add/set shortcuts, integer and fractional values, label sets of different shape, names reused across groups and outside groups, six invalid variants), sent by two hooks through the real JSON parser and the real SendBatch; (the JSON stream laid out one value per line, several on a line, or spread over lines) after every batch the complete Gather() output of the registry is compared with a reference registry written from the statement; an invalid operation must give an error and leave the registry untouched. Empty label values, the {PREFIX} template in grouped metrics and a non-empty storage prefix are in the alphabet. Batches in which a group's operations are separated by another group's or an ungrouped operation (A, x, A) are included, alone and after a batch that left series behind. Label values with a non-ASCII letter at different positions are in the alphabet.",
        "level_note": "Trusted: prometheus client (Gather), the reference registry in the harness. Identical series (same name and labels) reported under two different groups are left out of the space: an exposition cannot hold both and the statement does not say which wins.",
        "rule": "product enumeration of batches from the alphabet x hooks; non-trivial = history of >= 2 batches; distinct = distinct final registry",
        "parts": [
            part("c16", "pkg/metric_storage", "TestVerifC16", ["zz_verif_c16_test.go"], shards={"quick": 8, "thorough": 16}),
        ],
    },
    "C08": {
        "level": "model_checking",
        "engine": "E2",
        "technique": "exhaustive enumeration of per-object event histories x jq filters x event-type subsets on the real informer handler vs gojq reference",
        "level_text": "The real resourceInformer (handleWatchEvent, cache, applyFilter, jq.ApplyFilter, checksum) is driven with every sequence of up to 3 Added (plain or as part of an informer's initial list) / Modified / Deleted (plain or as a tombstone) deliveries over a pool of 5 (quick) / 7 (thorough) object states (equal, differing inside / outside the projection, differing only in metadata.uid, re-delivery of unchanged objects), for 13 jq filters (none, identity, object-, array-, scalar-, null-valued, multi-output, constructed objects), all 8 subsets of event types and both keepFullObjectsInMemory values. Oracle: which deliveries trigger the hook, the filterResult every event carries (jq of the delivered object), and what the snapshot shows after every step (last delivered state, filterResult, full object present or not). Part r: the same rule through real client-go informers started by the repository's own factory (free running, sentinel barrier): 3 filters x keepFullObjectsInMemory x objects with / without metadata.managedFields x a scripted history (start: re-delivery of unchanged objects triggers nothing; change outside / inside the projection; create; delete).",
        "level_note": "Trusted: gojq (the reference projection runs it directly), the reference in the harness. Filters outside the listed grammar and objects outside the pool are not covered.",
        "rule": "product enumeration filters x event sequences x type subsets x keepFull; non-trivial = sequence of >= 2 deliveries; distinct = distinct (filter, subset, trigger list)",
        "parts": [
            part("c08", "pkg/kube_events_manager", "TestVerifC08", ["zz_verif_c08_test.go"], shards={"quick": 12, "thorough": 16}),
            part("c08r", "pkg/kube_events_manager", "TestVerifC08r", ["zz_verif_c08r_test.go", "zz_verif_hubconf_test.go", "zz_verif_c01_test.go"], shards={"quick": 6, "thorough": 12},
                 extra={"pkg/kube_events_manager": ["zz_verif_hub.go"]}, instrument={"files": KEM_INSTR}),
        ],
    },
    "C01": {
        "level": "model_checking",
        "engine": "E1",
        "technique": "stateless model checking: deviation-bounded DFS over all interleavings of the instrumented informer/monitor code under a controlled scheduler",
        "level_text": "Level 1: the real kubeEventsManager, monitor and resourceInformer sources are compiled with their lock, channel, goroutine-start operations and unsynchronised flags as scheduling points and run under a hand-written controlled scheduler; client-go informers are replaced by a hub with one FIFO and one delivery thread per handler. For every scenario (6 histories of <=3 changes over 2 objects / 2 namespaces x {no filter, object-valued jqFilter, full objects dropped, Modified only} x {0,1} extra snapshot readers, namespace.labelSelector with a namespace appearing after start, slow consumer) the environment timing (deliveries before the Synchronization view and before the unlock, reader phase) is enumerated and ALL interleavings of informer delivery, Synchronization (Snapshot; hook; EnableKubeEventCb), extra readers and the event-channel consumer with at most 2 (quick; 1 for the larger scenarios) / 3 (thorough) pre-emptions are executed; each is checked with the suffix oracle against the environment's own mutation log (no early event, per-object order, no loss). Level 2: the real ShellOperator.Start() with a plain binding, a binding in its own queue and two bindings of one group, the Synchronization execution failing 0..1 (2) times, changes arriving while it fails and afterwards (each later change at once or after the operator went quiet), all schedules within 1 (2) deviations of the default scheduler; oracle on what the hook is given: no Event before the successful Synchronization, versions in order, the hook's view ends at the cluster's final state (for a group: the last Group execution shows the final state of every binding). A hook with two kubernetes bindings without a name is one of the operator-level configurations.",
        "level_note": "Trusted: the hub as a model of client-go's per-handler ordered delivery (its event sequences are compared with real client-go informers started by the repository's own FactoryStore on the fake cluster by part hubconf, which runs here as well as under C02: all histories up to depth 3 / 4 x registration moments of 1-2 handlers sharing one informer, incl. stopping the handler that started the shared informer while the other must go on receiving - the factory code the hub replaces is thereby inside this property's check), the fake cluster, the scheduler (vrt), the process stand-in at level 2. Scheduling granularity: lock acquisition, channel ops, goroutine start, listed racy fields (cross-checked by part kemrace, a free-running race-detector pass with real client-go informers that adds nothing to the counters); sequential consistency assumed. Level 2 also holds one execution at a gate while the next change arrives. Bounded: histories, configurations and the bounds are listed in the evidence.",
        "rule": "DFS over choice sequences (thread to run at each scheduling point) with at most N pre-emptions; non-trivial = execution with >= 1 pre-emption; distinct = distinct (Synchronization view, delivered event sequence) per scenario",
        "assumptions": ["informer hub models client-go: per-handler FIFO, initial LIST enqueued at registration, arbitrary lag"],
        "parts": [
            part("c01l1", "pkg/kube_events_manager", "TestVerifC01L1", ["zz_verif_c01_test.go"], shards={"quick": 8, "thorough": 16},
                 extra={"pkg/kube_events_manager": ["zz_verif_hub.go"]}, instrument={"files": KEM_INSTR}, gomaxprocs=1),
            part("kemrace", "pkg/kube_events_manager", "TestVerifRaceKEM", ["zz_verif_race_test.go", "zz_verif_hubconf_test.go", "zz_verif_c01_test.go"], shards={"quick": 6, "thorough": 12},
                 extra={"pkg/kube_events_manager": ["zz_verif_hub.go"]}, instrument={"files": KEM_INSTR}, race=True, gomaxprocs=4),
            part("hubconf", "pkg/kube_events_manager", "TestVerifHubConformance", ["zz_verif_hubconf_test.go", "zz_verif_c01_test.go"], shards={"quick": 16, "thorough": 16},
                 extra={"pkg/kube_events_manager": ["zz_verif_hub.go"]}, instrument={"files": KEM_INSTR}),
            part("c01l2", "pkg/shell-operator", "TestVerifC01L2", ["zz_verif_c01_test.go", "zz_verif_c03_test.go", "zz_verif_fixture_test.go"], shards={"quick": 10, "thorough": 13},
                 extra=OP_EXTRA, instrument=OP_INSTR, gomaxprocs=1),
        ],
    },
    "C03": {
        "level": "model_checking",
        "engine": "E1",
        "technique": "stateless model checking of the assembled operator and of the queue set alone under a controlled scheduler (deviation-bounded DFS), virtual clock",
        "level_text": "The real ShellOperator.Start() (task queues and their worker loops, queue set, events handler, hook and bindings controllers, schedule manager, kube events manager) runs under the controlled scheduler with a virtual clock; hook processes, informers, HTTP server and cron's goroutine are behind seams. Two hooks with kubernetes and schedule bindings in `main` and `q2`, an environment thread producing 2 ticks and 2 changes per namespace, three variants (no stall, a q2 hook that never returns, a main hook that fails forever). After start-up (run on the default schedule; C06 explores it) ALL schedules with at most 2 (quick) / 3 (thorough) deviations from the deterministic default scheduler (delay bounding: keep the running thread, else lowest thread id; every other choice, pre-emptive or not, costs one) are executed. Oracle per execution: handler intervals of one queue never overlap, the task handed over is the queue's head, every context runs in the queue its binding names, per-binding event order, and the queue that is not stalled executes all its tasks. Part q (the queue set alone, delay bound 2 / 3): four started queues, the worker of one inside a handler that does not return, one of nine set operations (Remove of the stalled / an idle / an absent queue, NewNamedQueue, Iterate, DoWithLock, GetByName, Stop of the stalled queue) from another thread, a task added the events handler's way and a task whose handler looks its own queue up - both handled while the stalled queue is still stalled. Part h (one real TaskQueue, delay bound 2 / 3): after a first handler result that makes the worker wait (Fail back-off, Repeat, DelayBeforeNextTask of 50 ms / 2 s with Success, 100 ms with Keep) one of AddFirst / AddBefore(head) / AddLast / Remove(head) / RemoveFirst / Filter(drop head) / AddFirst+Remove / AddFirst+CancelTaskDelay is issued at every enumerated virtual instant strictly inside the delay (1 ms .. 3 s); the handler calls after the delay must be the reference list's tasks head first - a task put at the head runs next, a removed task never runs again.",
        "level_note": "Trusted: scheduler (vrt), hub and process stand-in as environment models, fake cluster. Scheduling points: lock/channel/select/timer operations (locks of every file of the operator's packages) and listed racy fields; sequential consistency. Part oprace is a free-running race-detector pass over the same scenario with real goroutines and real client-go informers: it cross-checks that no unsynchronised access is missing from the list (an unlisted one is reported as a cap, never as a violation) and adds nothing to the counters.",
        "rule": "DFS over thread choices at scheduling points with at most N pre-emptions per stall variant; non-trivial = execution with >= 1 pre-emption; distinct = distinct sequence of (hook, queue, contexts) executions",
        "parts": [
            part("c03", "pkg/shell-operator", "TestVerifC03", ["zz_verif_c03_test.go", "zz_verif_fixture_test.go"], shards={"quick": 12, "thorough": 16},
                 extra=OP_EXTRA, instrument=OP_INSTR, gomaxprocs=1),
            part("c03q", "pkg/task/queue", "TestVerifC03q", ["zz_verif_c03q_test.go", "zz_verif_c05_test.go"], shards={"quick": 9, "thorough": 9}, gomaxprocs=1,
                 instrument={"files": [{"path": "pkg/task/queue/task_queue.go", "sync": True, "time": True, "conc": True, "touch": ["started", "q.Status"]},
                                       {"path": "pkg/task/queue/queue_set.go", "sync": True, "time": True, "conc": True, "touch": ["q.Status"], "mapranges": ["tqs.Queues"]}]}),
            part("c03h", "pkg/task/queue", "TestVerifC03h", ["zz_verif_c03h_test.go", "zz_verif_c05_test.go", "zz_verif_c17b_test.go"], shards={"quick": 8, "thorough": 16}, gomaxprocs=1,
                 instrument={"files": [{"path": "pkg/task/queue/task_queue.go", "sync": True, "time": True, "conc": True, "touch": ["started", "q.Status"]}]}),
            part("oprace", "pkg/shell-operator", "TestVerifRaceOperator", ["zz_verif_race_test.go", "zz_verif_c03_test.go", "zz_verif_fixture_test.go"], shards={"quick": 4, "thorough": 8},
                 extra=OP_EXTRA, instrument=OP_INSTR, race=True, gomaxprocs=4),
        ],
    },
    "C17": {
        "level": "model_checking",
        "engine": "E1",
        "technique": "stateless model checking of the assembled operator under a controlled scheduler: shutdown injected at every enumerated point, delay-bounded DFS, virtual clock",
        "level_text": "Scenario of C03 plus a thread running the operator's own Shutdown() sequence. The moment of the shutdown request is enumerated (after k = 0..12 quick / 0..24 thorough task-handling and hook-run events: queues empty, in a back-off delay after failures, in the middle of a handler, with ticks and events still arriving), and around each such point all schedules with at most 1 (quick) / 2 (thorough) deviations from the default scheduler are executed. Oracle: after the stop request a queue starts at most the task it had already picked (none if its handler was running), each worker reaches its final state at the virtual instant of max(stop request, return of its current handler) i.e. without any timer firing, Shutdown returns, and no hook is executed once all workers have stopped. Part b: the real TaskQueue alone under the scheduler: six handler results (every kind of delay between two tasks: DelayOnRepeat, DelayBeforeNextTask shorter / longer than the wait loop's check interval, the failure back-off, an empty queue) x Stop() at six virtual offsets strictly inside that delay, inside a running handler, on an empty queue, or together with an arriving task on an idle queue, delay bound 1 / 2 with both ready arms of a select explored: no handler call begins after the request and the worker reaches its final state at the virtual instant of the request (of its running handler's return). Mode listing: another thread walks the queue set (TaskQueueSet.Iterate) while ticks and events arrive, then Shutdown is requested.",
        "level_note": "Trusted: scheduler, hub, process stand-in, virtual clock. The queue's status string is read only to observe when a worker has terminated.",
        "rule": "for each (mode, stop point k): DFS over thread choices with at most N deviations; non-trivial = k > 0 or a deviation taken; distinct = distinct (worker stop times, execution list)",
        "parts": [
            part("c17", "pkg/shell-operator", "TestVerifC17", ["zz_verif_c17_test.go", "zz_verif_c03_test.go", "zz_verif_fixture_test.go"], shards={"quick": 16, "thorough": 16},
                 extra=OP_EXTRA, instrument=OP_INSTR, gomaxprocs=1),
            part("c17b", "pkg/task/queue", "TestVerifC17b", ["zz_verif_c05_test.go", "zz_verif_c17b_test.go"], shards={"quick": 8, "thorough": 16}, gomaxprocs=1,
                 instrument={"files": [{"path": "pkg/task/queue/task_queue.go", "sync": True, "time": True, "conc": True, "touch": ["started", "q.Status"]}]}),
        ],
    },
    "C04": {
        "level": "model_checking",
        "engine": "E1",
        "technique": "exhaustive enumeration of fault sequences on the assembled operator under the controlled scheduler with virtual time (thorough: plus delay-bounded schedule exploration)",
        "level_text": "Every fault sequence from {onStartup, Synchronization, Event, Schedule, combined Schedule+Event task, combined Schedule+Event+Schedule task (the binding that does not allow failure in the middle of three merged tasks)} x k in 0..3 consecutive failures x {non-zero exit, malformed metrics, malformed patch, patch that cannot be applied} x the allowFailure values of the bindings involved is run through the real operator (queues, combine, taskHandleHookRun, handleRunHook, metric storage, object patcher on the fake cluster) with a blocker task ahead and a later task behind it, on the virtual clock. Oracle: k+1 attempts with the same contexts (never fewer), each at least the initial delay (5 s virtual) after the failure, nothing else of the queue in between, the later task afterwards; with failure allowed by every binding involved a single attempt; a context of a binding that does not allow failure is never discarded after a failed run; no Event before the successful Synchronization. Failure kinds include malformed admission / conversion response files left behind by an ordinary run. One family has two schedule bindings with the same name and different allowFailure.",
        "level_note": "Trusted: scheduler and virtual clock, process stand-in (writes the real output files), hub, fake cluster. Quick explores the default schedule of each fault sequence; thorough adds all schedules with one deviation.",
        "rule": "product enumeration of fault sequences; non-trivial = k >= 1; distinct = distinct execution list",
        "parts": [
            part("c04", "pkg/shell-operator", "TestVerifC04", ["zz_verif_c04_test.go", "zz_verif_c03_test.go", "zz_verif_fixture_test.go"], shards={"quick": 12, "thorough": 16},
                 extra=OP_EXTRA, instrument=OP_INSTR, gomaxprocs=1),
        ],
    },
    "C06": {
        "level": "model_checking",
        "engine": "E2+E1",
        "technique": "exhaustive enumeration of ORDER assignments on the real hook manager; stateless model checking (delay-bounded) of operator start-up over generated hook sets and start-up failures",
        "level_text": "Part a: GetHooksInOrder(OnStartup) on a real Manager for every assignment of ORDER in {1,2,3} to 1..9 (10) hooks and of ORDER in {1,2} to 13,14 (..17) hooks; oracle: ascending ORDER, ties in path order. Part b: the real Start() on generated hook sets (1-3 hooks from a menu mixing onStartup, kubernetes bindings with and without group, executeHookOnSynchronization false, a v0 hook, schedules, a named queue; plus a group whose first / last binding has executeHookOnSynchronization false, a group whose bindings are not declared next to each other, two ungrouped kubernetes bindings, two ungrouped bindings with the second in a named queue, and sets in which the first LIST for the second binding fails so that enabling the bindings is retried) with an environment firing ticks and cluster changes from the very first moment and with the j-th start-up execution failing k in {0,1,2} times; all schedules within the delay bound; oracle on the execution log: onStartup hooks exactly once in (ORDER, path) order before anything else, then per hook in path order each binding's Synchronization once (one execution per group, none when switched off or v0) in main, before any Event of that binding and before any Schedule task of that hook. Outside the start-up executions every context runs in the queue of its own binding (a start-up execution delivered twice is reported); hook shapes include a group whose bindings use a named queue. Hook sets include pairs of byte-identical hooks and a copied hook with a named-queue binding whose start-up executions fail once.",
        "level_note": "Trusted: scheduler, hub, process stand-in, fake cluster, reference in the harness.",
        "rule": "product enumeration (part a); hook sets x failure injection x DFS over schedules within the bound (part b); non-trivial = ties in ORDER / a failure or deviation; distinct = distinct order / execution log",
        "parts": [
            part("c06a", "pkg/hook", "TestVerifC06a", ["zz_verif_c06_test.go"], shards={"quick": 8, "thorough": 16}),
            part("c06b", "pkg/shell-operator", "TestVerifC06b", ["zz_verif_c06_test.go", "zz_verif_c03_test.go", "zz_verif_fixture_test.go"], shards={"quick": 48, "thorough": 64},
                 extra=OP_EXTRA, instrument=OP_INSTR, gomaxprocs=1),
        ],
    },
    "C18": {
        "level": "model_checking",
        "engine": "E1",
        "technique": "exhaustive enumeration of arrival patterns x (interval, burst) on the assembled operator with the rate limiter compiled against the virtual clock",
        "level_text": "golang.org/x/time/rate is compiled (by overlay) against the virtual-time shim, so the limiter's clock reads and timer waits are owned by the scheduler. For (I,B) in {(1s,1),(2s,3),(500ms,2)} and for a hook without settings, every arrival pattern of up to 4 (quick) / 5 (thorough) changes with gaps from {0, I/2, I, 2I} and hook durations {0, I} is run through the real operator (Synchronization run included), also for a hook with three kubernetes bindings (three Synchronization executions back to back) a hook whose bindings use two queues, and a second hook sharing the throttled hook's queue; oracle on the virtual start times of the hook's executions: for all i<j, j-i+1 <= B + ceil((t_j-t_i)/I); a hook without settings in another queue starts when its event arrives; without settings a hook is delayed only by its own previous run. Hook shapes include a hook that also serves an admission binding; intervals of 30 s and 1 m with context deadlines on the virtual clock. Two cases with 1200 arrivals at one instant (one execution's worth of contexts, however many).",
        "level_note": "Trusted: virtual clock and scheduler; x/time/rate itself is the instrumented real source from the module cache. Default schedule only (the property quantifies over arrival patterns; interleavings of the queue machinery are explored by C03/C17).",
        "rule": "product enumeration of (I,B) x gap sequences x hook duration; non-trivial = >= 2 arrivals; distinct = distinct start-time sequence",
        "parts": [
            part("c18", "pkg/shell-operator", "TestVerifC18", ["zz_verif_c18_test.go", "zz_verif_c04_test.go", "zz_verif_c03_test.go", "zz_verif_fixture_test.go"], shards={"quick": 16, "thorough": 16},
                 extra=OP_EXTRA, gomaxprocs=1,
                 instrument={"dirs": OP_DIRS, "files": OP_INSTR["files"] + [
                     {"path": "/root/go/pkg/mod/golang.org/x/time@v0.11.0/rate/rate.go", "sync": True, "time": True, "conc": True, "as": "pkg/zzverif/vrate/rate.go"},
                     {"path": "pkg/hook/hook.go", "sync": True, "imports": {"golang.org/x/time/rate": "github.com/flant/shell-operator/pkg/zzverif/vrate"}}]}),
        ],
    },
    "C20": {
        "level": "model_checking",
        "engine": "E2",
        "technique": "exhaustive enumeration of small directory trees on a real file system vs the discovery rule; enumeration of hook layouts x failing --config choice through the real Manager.Init with real processes",
        "level_text": "Part a: every tree of one entry (path of up to 3 components over directories {sub, lib, .hid, x.d} x 8 file names x 5 permission modes and a symbolic link to an executable) under hooks directories named hooks / lib / .hooks, every pair from a 50-entry pool and (thorough) every triple from a 30-entry pool is created on tmpfs; RecursiveGetExecutablePaths must return exactly the files the statement's rule selects. Part b: Manager.Init on 9 hook layouts (name collisions across directories, directory/file name prefixes whose walk order differs from lexical order, blanks, case) with real /bin/sh hooks that log each --config call, plus lib/, hidden, non-executable and excluded-extension noise; for the healthy layout and for every choice of one hook whose --config fails in one of six ways (silent exit 1, exit 127 with stderr, exit 2 with stdout and stderr, invalid configuration, invalid with stderr, neither JSON nor YAML): names = relative paths in lexical order, one --config call per hook, none for non-hooks, failure names the hook. Also with the hooks directory given through a symbolic link (names stay relative to the given path).",
        "level_note": "Trusted: the file system (tmpfs), /bin/sh. Runs as root, so permission bits are not enforced on execution.",
        "rule": "enumeration of entry sets / (layout, failing hook, kind); non-trivial = nested path or more than one entry; distinct = distinct discovered set / loaded order",
        "parts": [
            part("c20a", "pkg/utils/file", "TestVerifC20a", ["zz_verif_c20_test.go"], shards={"quick": 8, "thorough": 16}),
            part("c20b", "pkg/hook", "TestVerifC20b", ["zz_verif_c20_test.go"], shards={"quick": 8, "thorough": 8}),
        ],
    },
    "C19": {
        "level": "model_checking",
        "engine": "E2",
        "technique": "exhaustive enumeration of (context type, handler subset, binding name, array shape, failing position) on the real bash framework with real bash and jq",
        "level_text": "Generated hook scripts source the working tree's shell_lib.sh and frameworks/shell/*.sh and define a chosen subset of handler functions that log their name and BINDING_CONTEXT_CURRENT_INDEX and return a scripted status. Enumerated: 13 context types (two without a type field, as configVersion v0 hooks get them; one Synchronization of about 350 KB) x every subset of that type's candidate handler names plus __main__ x binding names {pods, my-binding, 'Monitor pods in cache tier'} with the selected handler succeeding, failing with an explicit status or failing in strict mode (a command in its middle fails); arrays of 2-3 contexts of different types with a failing, strict-failing, missing or stdin-reading handler at each position; --config. Oracle: exactly the first defined candidate (most to least specific, then __main__) is invoked per context with that context's index, the run stops with a non-zero status at the first failing or unserved context and succeeds otherwise. Arrays of 9, 10, 12 and 25 contexts; handlers that leave with exit 0 or switch set +e. Binding names include characters special to the shell (*, %, [, backslash; thorough: ?, $, quotes, ;, a crontab): for every candidate name the real bash is asked whether such a function can be defined, and the reference expects it to be invoked exactly when it can.",
        "level_note": "Trusted: bash and jq of the image. The candidate lists in the reference are taken from the framework source, which is the only place they are documented.",
        "rule": "product enumeration; non-trivial = more than one handler defined or more than one context; distinct = distinct (invoked handlers, success)",
        "parts": [
            part("c19", "pkg/zzverif/c19", "TestVerifC19", ["zz_verif_c19_test.go"], shards={"quick": 16, "thorough": 16}),
        ],
    },
    "C13": {
        "level": "model_checking",
        "engine": "E2",
        "technique": "exhaustive enumeration of operation-document streams x encodings x initial cluster states on the real parser and patcher vs a reference interpreter",
        "level_text": "Every stream of 1-2 documents and a spread (thorough: all) of 3-document streams over 11-12 valid operations (Create / CreateIfNotExists / CreateOrUpdate, delete variants, MergePatch / JSONPatch / JQPatch, objects and patches inline and as strings, integer / float / bool fields, ignoreMissingObject) and 9 invalid documents (7 single-fault ones and a stray closing brace / bracket), written as a JSON stream and as a YAML stream, goes through the real ParseOperations and ObjectPatcher.ExecuteOperations on a fake cluster with the object absent or present. Oracle: an invalid document anywhere gives an error and an untouched cluster; otherwise the final cluster equals a reference interpreter applying the operations once each in order, an apply-time error is reported exactly when the reference predicts one, nothing panics, and both encodings decode to deep-equal operation specs (numeric types included). Plus CreateOrUpdate of string-only objects in 4 encodings against 5 existing states: the object ends exactly as the document says. Plus dependent documents: a kind that is served only once its definition exists (5 streams x 2 encodings) - the cluster must end as applying the documents one after another ends; JSONPatch with value-less and copy items. Plus a kind served by two API groups: all sequences of 2-3 documents over {patch alpha, patch beta, patch bare, delete bare, delete beta} x every split into two streams on one patcher - every document acts on the object it names (what a bare kind addresses is taken from a one-document stream on a fresh patcher). Every valid stream of two or more documents is also given as a YAML stream of JSON-notation documents and as a JSON document followed by YAML documents.",
        "level_note": "Trusted: the fake dynamic client as cluster, gojq, the reference interpreter. 'Invalid' is limited to the unmistakable faults of docs/src/KUBERNETES.md. Foreground Delete (polls with a real 1 s interval) only in the thorough tier; subresource is not exercised (the fake client ignores it).",
        "rule": "product enumeration of document streams x {absent, present}; non-trivial = more than one document; distinct = distinct (final cluster, error)",
        "parts": [
            part("c13", "pkg/kube/object_patch", "TestVerifC13", ["zz_verif_c13_test.go"], shards={"quick": 16, "thorough": 16}),
        ],
    },
    "C14": {
        "level": "model_checking",
        "engine": "E2",
        "technique": "exhaustive enumeration of (binding set, request path, body, hook outcome) through the real admission handler and operator event handler",
        "level_text": "The operator's own initValidatingWebhookManager runs (TLS server start behind a no-op seam); requests are served by the real chi router, handler and admission event handler (task creation, taskHandler, Hook.Run with the stand-in process writing the real response file). Enumerated: 3 binding sets over two hooks (validating + mutating, names colliding after URL sanitising) x every registered path, unknown webhook, unknown configuration and malformed paths x {valid review, no request, garbage} x 20 hook outcomes (exit 0/1 x empty, garbage, wrong type, allow, allow+warnings, deny+message, deny, deny+message+warnings, allow+patch, allow+patch+warnings, allow with an object patch that cannot be parsed / applied), with ordinary tasks of both hooks waiting in `main` (a request must leave them alone). Oracle: allowed=true only when the addressed hook ran, exited 0 and wrote a valid allow; UID echoed; warnings, denial message and patch (with patchType JSONPatch iff patch) relayed; the hook and binding that ran registered that path. Binding sets include one validating name declared by two hooks (one of them with a mutating binding too); hooks are told apart by their rules: the request is served by the hook whose rules the manager holds for the path.",
        "level_note": "Trusted: net/http/httptest, chi, the stand-in (it writes the scripted bytes into the real response file, parsing stays real). Registration of webhook configurations in the cluster is outside the property.",
        "rule": "product enumeration; non-trivial = anything but a plain valid allow; distinct = distinct answer",
        "parts": [
            part("c14", "pkg/shell-operator", "TestVerifC14", ["zz_verif_c14_test.go", "zz_verif_fixture_test.go"], shards={"quick": 12, "thorough": 16},
                 extra=FX_EXTRA, instrument=FX_INSTR),
        ],
    },
    "C12": {
        "level": "model_checking",
        "engine": "E2+E1",
        "technique": "exhaustive enumeration of (exit code x contents of the four output files) with real processes; stateless model checking (pre-emption-bounded) of two concurrent executions of one hook",
        "level_text": "Part a: a real /bin/sh hook, executed by the real executor through the operator's taskHandler, dumps its cwd, the six environment variables, the state of the prepared files and the binding-context file, writes scripted contents and exits with a scripted code: exit in {0,1,2,255, killed by SIGKILL, killed by SIGTERM} x each of metrics / patch / admission / conversion file in {untouched, valid, truncated, wrong type} (1536 cases, 1-3 contexts; the temp directory prepared by the operator's own EnsureTempDirectory, in every fifth case from a relative path). Oracle: cwd = hook directory, context file = the task's contexts, output files exist and are empty, file names never reused, non-zero exit or any malformed output fails the task, valid outputs take effect (object in the fake cluster, metric in the hook registry, responses on the task), temp dir empty afterwards in every case, one execution per task. Part b: two executions of the same hook from two threads with scheduling points at every os.* call of hook.go and inside the stand-in process, all interleavings within 2 (quick) / 3 (thorough) pre-emptions, one variant with a failing first execution: each execution reads back its own response, results are right, temp dir empty at the end. Every seventh case of part a prints 200 KB to stderr before it exits. Part b has a variant with two different hooks whose cleaned names coincide.",
        "level_note": "Trusted: /bin/sh, the fake cluster, the stand-in process in part b. Failures to create temp files (disk full) are outside the property and not injected.",
        "rule": "product enumeration (part a); DFS over interleavings within the bound (part b); non-trivial = any non-default file content or exit / a pre-emption; distinct = distinct (result, inputs) / results",
        "parts": [
            part("c12a", "pkg/shell-operator", "TestVerifC12a", ["zz_verif_c12_test.go", "zz_verif_fixture_test.go"], shards={"quick": 16, "thorough": 16},
                 extra=FX_EXTRA, instrument=FX_INSTR),
            part("c12b", "pkg/shell-operator", "TestVerifC12b", ["zz_verif_c12_test.go", "zz_verif_fixture_test.go"], shards={"quick": 8, "thorough": 16}, gomaxprocs=1,
                 extra=FX_EXTRA, instrument={"files": FX_INSTR["files"] + [{"path": "pkg/hook/hook.go", "touchcalls": ["os.WriteFile", "os.Remove", "os.ReadFile"]}]}),
        ],
    },
    "C09": {
        "level": "model_checking",
        "engine": "E2",
        "technique": "exhaustive enumeration of binding option vectors through the real end-to-end path (informer -> controllers -> UpdateSnapshots -> JSON file read by the hook) vs a reference renderer",
        "level_text": "For each of 48 option vectors (jqFilter x keepFullObjectsInMemory x includeSnapshotsFrom {none, itself, another binding} x group x snapshots included by the schedule / validating / mutating / conversion bindings) a hook is loaded into the real operator (scheduler-controlled, default schedule, hub and process stand-in) and webhook requests before Start() (bindings not enabled yet), start-up, Added / Modified / Deleted changes (the Deleted notification carrying a final state nobody has seen), a tick, two admission requests and a conversion request are played; every binding context read from the real BINDING_CONTEXT_PATH file (onStartup, Synchronization, Event x3, Group, Schedule, Validating, Mutating, Conversion) is checked against a reference renderer written from docs/src/HOOKS.md: required / forbidden keys per type, filterResult equal to the jq result of that very object, object present iff full objects are kept, snapshots present iff the binding includes snapshots, with exactly the documented keys and every one of them a list; every kind of context must have been delivered. One configVersion v0 scenario: short-form contexts with resourceEvent / resourceNamespace / resourceKind / resourceName of the object concerned, no snapshots. Plus a combined array whose items belong to a kubernetes and a schedule binding with the same name and different includeSnapshotsFrom: every item carries the snapshots of its own binding. Objects carry metadata.managedFields and the filter reaches into them.",
        "level_note": "Trusted: hub and stand-in, gojq for the reference filterResult, the reference renderer. Snapshot contents are C02's subject; v0 rendering is exercised by C06 (v0 hook in the start-up sets).",
        "rule": "product enumeration of option vectors, one scripted event history each; non-trivial = any non-default option; distinct = distinct option vector",
        "parts": [
            part("c09", "pkg/shell-operator", "TestVerifC09", ["zz_verif_c09_test.go", "zz_verif_c09v0_test.go", "zz_verif_c09comb_test.go", "zz_verif_c03_test.go", "zz_verif_fixture_test.go"], shards={"quick": 16, "thorough": 16},
                 extra=OP_EXTRA, instrument=OP_INSTR, gomaxprocs=1),
        ],
    },
    "C02": {
        "level": "model_checking",
        "engine": "E2+E1",
        "technique": "exhaustive enumeration of cluster histories x monitor configurations on the real monitor/informer code vs reference sets (plus restart differential); stateless model checking of the start-up window and of concurrent snapshot reads inside one execution",
        "level_text": "Part a: every history of up to 3 (quick) / 4 (thorough) steps over 16 operations (create / modify / delete of objects in three namespaces, a change outside the binding's projection, a labelled namespace deleted with its objects, a labelled namespace appearing) with synchronous delivery, for 14 monitor configurations (all namespaces | namespace.nameSelector | namespace.labelSelector x matchNames x jqFilter x keepFullObjectsInMemory, and three namespaces named in non-alphabetical order so that one monitor has several informers): after every step the real Snapshot() equals the reference computed from the cluster (same elements once each, sorted by namespace/name, projection, object presence and - when full objects are kept - the object's field outside the projection per item) and equals the snapshot of a fresh monitor on the same cluster (restart). Part b: environment changes interleaved by the scheduler with AddMonitor's LIST and StartMonitor's LIST (5 histories, bound 1/2): once quiet the snapshot equals the cluster. Part c: at operator level, hook executions whose contexts mention one binding several times (Synchronization objects, self-include, group, includeSnapshotsFrom from other bindings and queues) with informer deliveries interleaved: inside one execution every occurrence of a binding's snapshot is identical and the keys of snapshots are exactly the declared ones. The hub conformance part also stops one of two handlers that share an informer factory: the remaining one keeps following the cluster, in real client-go and in the hub alike. One configuration combines several names with a field selector (one informer per name, each with the binding's own field selector plus its name); the hub evaluates whole field selectors.",
        "level_note": "Trusted: hub (per-handler FIFO), fake cluster with a list reactor honouring metadata.name, reference sets. Configurations whose documented meaning is ambiguous are left out (nameSelector and labelSelector on one binding; two bindings with one name). Part hubconf: the informer hub used by every scheduler-controlled check is compared with real client-go shared informers started by the repository's own FactoryStore.Start / namespaceInformer.start: all histories up to depth 3 (quick) / 4 (thorough) over 12 operations x every registration moment of 1-2 handlers, identical per-handler callback sequences step by step (selector configurations: initial LIST only, the fake WATCH does not filter).",
        "rule": "product enumeration of histories x configurations (part a); DFS over interleavings within the bound (parts b, c); non-trivial = history of >= 2 steps / a deviation; distinct = distinct (configuration, snapshot)",
        "parts": [
            part("c02a", "pkg/kube_events_manager", "TestVerifC02a", ["zz_verif_c02_test.go", "zz_verif_c01_test.go"], shards={"quick": 16, "thorough": 16},
                 extra={"pkg/kube_events_manager": ["zz_verif_hub.go"]}, instrument={"files": KEM_INSTR}, gomaxprocs=1),
            part("c02b", "pkg/kube_events_manager", "TestVerifC02b", ["zz_verif_c02_test.go", "zz_verif_c01_test.go"], shards={"quick": 5, "thorough": 10},
                 extra={"pkg/kube_events_manager": ["zz_verif_hub.go"]}, instrument={"files": KEM_INSTR}, gomaxprocs=1),
            part("hubconf", "pkg/kube_events_manager", "TestVerifHubConformance", ["zz_verif_hubconf_test.go", "zz_verif_c01_test.go"], shards={"quick": 16, "thorough": 16},
                 extra={"pkg/kube_events_manager": ["zz_verif_hub.go"]}, instrument={"files": KEM_INSTR}),
            part("c02c", "pkg/shell-operator", "TestVerifC02c", ["zz_verif_c02_test.go", "zz_verif_c09_test.go", "zz_verif_c09v0_test.go", "zz_verif_c09comb_test.go", "zz_verif_c03_test.go", "zz_verif_fixture_test.go"], shards={"quick": 16, "thorough": 16},
                 extra=OP_EXTRA, instrument=OP_INSTR, gomaxprocs=1),
        ],
    },
    "C10": {
        "level": "model_checking",
        "engine": "E2",
        "technique": "exhaustive enumeration of configuration option vectors (JSON and YAML) vs a reference effective configuration; enumeration of single-fault mutations; exhaustive short byte strings, prefixes and substitutions for no-crash",
        "level_text": "Part a: the option product of a kubernetes binding (16 options, 829,440 vectors; thorough: all, quick: every 37th in mixed-radix order) rendered as JSON and as YAML and loaded with the real LoadAndValidate: both load, the two effective configurations are equal and equal the reference computed from the vector (binding name, queue main, allowFailure false, event types with executeHookOnEvent over watchEvent, executeHookOnSynchronization / keepFullObjectsInMemory true, waitForSynchronization only off for named queues, selectors, group -> snapshots merge); plus multi-binding shapes for declared order, includeSnapshotsFrom and group merge across kubernetes / schedule / validating / mutating / conversion bindings and settings, bindings of one group with different queues, onStartup: 0, and a configVersion v0 configuration with unnamed bindings. Part b: 40 single-fault mutations of a full configuration in the classes the statement names (unknown field at 18 nesting levels, bad crontab, unknown / ambiguous include, invalid label / field selectors incl. admission bindings, unsupported or mistyped version), as JSON and YAML: all rejected, none panics. Part c: all byte strings up to length 3 over a 14-symbol structural alphabet, every prefix and every single-byte substitution of 6 valid documents: LoadAndValidate returns (config or error) and never panics.",
        "level_note": "Trusted: the reference in the harness, sigs.k8s.io/yaml for rendering the YAML form. Part c is exhaustive only inside its bound; 'all byte strings' is infinite.",
        "rule": "product / mutation / byte-string enumeration; non-trivial = non-default vector / every mutation / non-empty input; distinct = distinct effective configuration / mutation / accept-reject outcome",
        "parts": [
            part("c10a", "pkg/hook/config", "TestVerifC10a", ["zz_verif_c10_test.go"], shards={"quick": 16, "thorough": 16}),
            part("c10b", "pkg/hook/config", "TestVerifC10b", ["zz_verif_c10_test.go"], shards={"quick": 4, "thorough": 4}),
            part("c10c", "pkg/hook/config", "TestVerifC10c", ["zz_verif_c10_test.go"], shards={"quick": 16, "thorough": 16}),
        ],
    },
}
