#!/usr/bin/env python3
"""usage: seedstore.py <name> <property> <diff> <demo> <pkgdir> <run-regexp> <needs> <detected: text>
Copies a confirmed seeded change into /verif/seeded/<name>/ with meta.json."""
import json, os, shutil, sys
name, prop, diff, demo, pkg, run, needs, detected = sys.argv[1:9]
d = os.path.join('/verif/seeded', name)
os.makedirs(d, exist_ok=True)
shutil.copy(diff, os.path.join(d, 'patch.diff'))
shutil.copy(demo, os.path.join(d, 'demo_test.go.txt'))
meta = {
 "property": prop,
 "breaks": open(diff).read().split('\n')[0],
 "needs_to_manifest": needs,
 "demonstration": {"file": "demo_test.go.txt", "place_in": pkg, "command": "go test -vet=off -count=1 -run '%s' ./%s" % (run, pkg)},
 "confirmed": ["tools/seedconfirm.sh in a scratch worktree of /repo: demonstration passes without the change, fails with it; full suite (go test -vet=off -count=1 ./...) passes with the change"],
 "checked_with": "tools/seedtest.sh %s seeded/%s/patch.diff" % (prop, name),
 "result": detected,
}
json.dump(meta, open(os.path.join(d, 'meta.json'), 'w'), indent=1)
print("stored", d)
