// vinstr — syntactic source instrumenter for the controlled scheduler (engine E1).
//
// It reads selected files from /repo's current working tree, rewrites the constructs listed in
// DESIGN.md §2.2 and writes instrumented copies for `go build -overlay`:
//
//	import "sync"/"time"   -> zzverif/vsync, zzverif/vtime (same local name)
//	go f(x)                -> vrt.Go(func() { f(x) })
//	ch <- v, <-ch          -> vrt.Send / vrt.Recv / vrt.Recv2
//	select {…}             -> switch vrt.Select(hasDefault, cases…) { case i: select { <clause i> } … }
//	for k, v := range m    -> iteration over vrt.Keys(m)   (only for listed map expressions)
//	statements that mention listed racy fields -> preceded by vrt.Touch("field")
//	listed call expressions (e.g. rand.Int64N) -> replaced by another callee
//	bodies of listed seam functions            -> a call of the seam
//
// Purely syntactic (go/ast); the file list and per-file options come from a JSON config.
package main

import (
	"bytes"
	"encoding/json"
	"flag"
	"fmt"
	"go/ast"
	"go/format"
	"go/parser"
	"go/token"
	"os"
	"path/filepath"
	"strconv"
	"strings"

	"golang.org/x/tools/go/ast/astutil"
)

const modPath = "github.com/flant/shell-operator/pkg/zzverif/"

type FileCfg struct {
	Path      string            `json:"path"`      // relative to repo (or absolute for module-cache files)
	Sync      bool              `json:"sync"`      // alias "sync" import
	Time      bool              `json:"time"`      // alias "time" import
	Conc      bool              `json:"conc"`      // go / channel / select rewriting
	MapRanges []string          `json:"mapranges"` // source text of map expressions whose range is controlled; "*" = every range whose X is not obviously a slice (use with care)
	Touch     []string          `json:"touch"`     // field names
	Calls     map[string]string `json:"calls"`     // "rand.Int64N" -> "vrt.Int64N"
	Seams     map[string]string `json:"seams"`     // "Recv.Func" or "Func" -> seam function name
	TouchCall []string          `json:"touchcalls"` // "os.Remove": a Touch before statements calling pkg.Func
	As        string            `json:"as"`         // overlay target (relative to repo) when the copy is to appear at another path (virtual package)
	Imports   map[string]string `json:"imports"`    // import path replacement
}

// DirCfg: every non-test .go file of Dir that is not listed under files and imports "sync"
// gets its sync import aliased as well, so that a lock added to any file of the package is a
// scheduling point (a real mutex contended between two scheduler threads would hang the run).
type DirCfg struct {
	Dir     string   `json:"dir"`
	Sync    bool     `json:"sync"`
	Exclude []string `json:"exclude"`
}

type Cfg struct {
	Files []FileCfg `json:"files"`
	Dirs  []DirCfg  `json:"dirs"`
}

func main() {
	repo := flag.String("repo", "/repo", "repository root")
	cfgPath := flag.String("cfg", "", "config json")
	out := flag.String("out", "", "output dir")
	flag.Parse()
	var cfg Cfg
	b, err := os.ReadFile(*cfgPath)
	if err != nil {
		die(err)
	}
	if err := json.Unmarshal(b, &cfg); err != nil {
		die(err)
	}
	result := map[string]string{}
	listed := map[string]bool{}
	for _, fc := range cfg.Files {
		listed[filepath.Clean(fc.Path)] = true
	}
	for _, dc := range cfg.Dirs {
		if !dc.Sync {
			continue
		}
		ents, err := os.ReadDir(filepath.Join(*repo, dc.Dir))
		if err != nil {
			continue // the directory may not exist in this tree
		}
		for _, e := range ents {
			n := e.Name()
			if e.IsDir() || !strings.HasSuffix(n, ".go") || strings.HasSuffix(n, "_test.go") || strings.HasPrefix(n, "zz_verif") {
				continue
			}
			rel := filepath.Join(dc.Dir, n)
			skip := listed[rel]
			for _, x := range dc.Exclude {
				if x == n {
					skip = true
				}
			}
			if skip {
				continue
			}
			src, err := os.ReadFile(filepath.Join(*repo, rel))
			if err != nil || !strings.Contains(string(src), "\"sync\"") {
				continue
			}
			cfg.Files = append(cfg.Files, FileCfg{Path: rel, Sync: true})
			listed[rel] = true
		}
	}
	for i, fc := range cfg.Files {
		src := fc.Path
		if !filepath.IsAbs(src) {
			src = filepath.Join(*repo, fc.Path)
		}
		code, err := instrument(src, fc)
		if err != nil {
			die(fmt.Errorf("%s: %w", fc.Path, err))
		}
		dst := filepath.Join(*out, fmt.Sprintf("%03d_%s", i, filepath.Base(src)))
		if err := os.WriteFile(dst, code, 0o644); err != nil {
			die(err)
		}
		if fc.As != "" {
			result[filepath.Join(*repo, fc.As)] = dst
		} else {
			result[src] = dst
		}
	}
	j, _ := json.Marshal(result)
	fmt.Println(string(j))
}

func die(err error) {
	fmt.Fprintln(os.Stderr, "vinstr:", err)
	fmt.Println("vinstr:", err)
	os.Exit(1)
}

type rewriter struct {
	fset    *token.FileSet
	fc      FileCfg
	usedVrt bool
	tmp     int
	err     error
	commMark map[ast.Stmt]bool
	callsHit map[string]bool
	optional map[string]bool // call replacements that need not occur in the file ("?pkg.Func" in the configuration)
}

func instrument(path string, fc FileCfg) ([]byte, error) {
	fset := token.NewFileSet()
	f, err := parser.ParseFile(fset, path, nil, parser.ParseComments)
	if err != nil {
		return nil, err
	}
	rw := &rewriter{fset: fset, fc: fc, commMark: map[ast.Stmt]bool{}, callsHit: map[string]bool{}, optional: map[string]bool{}}
	for k, v := range fc.Calls {
		if strings.HasPrefix(k, "?") {
			delete(fc.Calls, k)
			fc.Calls[k[1:]] = v
			rw.optional[k[1:]] = true
		}
	}
	rw.fc = fc

	// imports
	for _, imp := range f.Imports {
		p, _ := strconv.Unquote(imp.Path.Value)
		if p == "sync" && fc.Sync {
			setImport(imp, "sync", modPath+"vsync")
		}
		if p == "time" && fc.Time {
			setImport(imp, "time", modPath+"vtime")
		}
		if np, ok := fc.Imports[p]; ok {
			imp.Path.Value = strconv.Quote(np)
			imp.EndPos = 0
		}
	}

	// seams first
	var extraDecls []*ast.FuncDecl
	for _, d := range f.Decls {
		fd, ok := d.(*ast.FuncDecl)
		if !ok || fd.Body == nil {
			continue
		}
		name := fd.Name.Name
		if fd.Recv != nil && len(fd.Recv.List) == 1 {
			name = recvTypeName(fd.Recv.List[0].Type) + "." + name
		}
		if seam, ok := fc.Seams[name]; ok {
			extraDecls = append(extraDecls, rw.applySeam(fd, seam))
			delete(fc.Seams, name)
		}
	}
	for _, d := range extraDecls {
		f.Decls = append(f.Decls, d)
	}
	for k := range fc.Seams {
		return nil, fmt.Errorf("seam function %s not found (was it renamed?)", k)
	}

	// call replacement + touch + conc + mapranges
	astutil.Apply(f, rw.pre, rw.post)
	if rw.err != nil {
		return nil, rw.err
	}
	for k := range fc.Calls {
		if !rw.callsHit[k] && !rw.optional[k] {
			return nil, fmt.Errorf("call %s not found (was it renamed?)", k)
		}
	}
	if rw.usedVrt {
		astutil.AddNamedImport(fset, f, "zzvrt", modPath+"vrt")
	}
	// imports that a call replacement left unused (only the packages named in the replaced calls)
	for key := range fc.Calls {
		parts := strings.Split(key, ".")
		if len(parts) != 2 {
			continue
		}
		pkg := parts[0]
		used := false
		ast.Inspect(f, func(n ast.Node) bool {
			if se, ok := n.(*ast.SelectorExpr); ok {
				if id, ok := se.X.(*ast.Ident); ok && id.Name == pkg && id.Obj == nil {
					used = true
				}
			}
			return !used
		})
		if used {
			continue
		}
		for _, imp := range f.Imports {
			ip, _ := strconv.Unquote(imp.Path.Value)
			match := imp.Name != nil && imp.Name.Name == pkg
			if imp.Name == nil {
				el := strings.Split(ip, "/")
				last := el[len(el)-1]
				if len(el) > 1 && len(last) >= 2 && last[0] == 'v' && last[1] >= '0' && last[1] <= '9' {
					last = el[len(el)-2]
				}
				match = last == pkg
			}
			if match {
				if imp.Name != nil {
					astutil.DeleteNamedImport(fset, f, imp.Name.Name, ip)
				} else {
					astutil.DeleteImport(fset, f, ip)
				}
			}
		}
	}
	// drop comments positions trouble: print via format.Node
	var buf bytes.Buffer
	f.Comments = nil // comments attached to moved nodes confuse the printer; none are needed
	stripDocs(f)
	if err := format.Node(&buf, fset, f); err != nil {
		return nil, err
	}
	// unused import check: if "time"/"sync" became unused the compiler will tell; nothing to do here
	return buf.Bytes(), nil
}

func stripDocs(f *ast.File) {
	// keep build constraints if any: they are in f.Comments before package; we dropped all comments.
	// Files selected for instrumentation carry no build tags (checked at config time by the build).
	ast.Inspect(f, func(n ast.Node) bool {
		switch x := n.(type) {
		case *ast.FuncDecl:
			x.Doc = nil
		case *ast.GenDecl:
			x.Doc = nil
		case *ast.Field:
			x.Doc, x.Comment = nil, nil
		case *ast.TypeSpec:
			x.Doc, x.Comment = nil, nil
		case *ast.ValueSpec:
			x.Doc, x.Comment = nil, nil
		case *ast.ImportSpec:
			x.Doc, x.Comment = nil, nil
		}
		return true
	})
	f.Doc = nil
}

func setImport(imp *ast.ImportSpec, defName, newPath string) {
	if imp.Name == nil {
		imp.Name = ast.NewIdent(defName)
	}
	imp.Path.Value = strconv.Quote(newPath)
	imp.EndPos = 0
}

func recvTypeName(e ast.Expr) string {
	switch x := e.(type) {
	case *ast.StarExpr:
		return recvTypeName(x.X)
	case *ast.Ident:
		return x.Name
	case *ast.IndexExpr:
		return recvTypeName(x.X)
	}
	return "?"
}

func (rw *rewriter) vrt(name string) ast.Expr {
	rw.usedVrt = true
	return &ast.SelectorExpr{X: ast.NewIdent("zzvrt"), Sel: ast.NewIdent(name)}
}

// applySeam turns  func (r T) F(args) results { body }  into
//
//	func (r T) zzOrigF(args) results { body }
//	func (r T) F(args) results { if seam != nil { return seam(r, args...) }; return r.zzOrigF(args...) }
//
// where seam is a package-level function variable declared by the harness in an
// overlay-added file. With the variable nil the original behaviour is untouched.
func (rw *rewriter) applySeam(fd *ast.FuncDecl, seam string) *ast.FuncDecl {
	var args []ast.Expr
	var recvName string
	if fd.Recv != nil {
		f := fd.Recv.List[0]
		if len(f.Names) == 0 || f.Names[0].Name == "_" {
			f.Names = []*ast.Ident{ast.NewIdent("zzrecv")}
		}
		recvName = f.Names[0].Name
		args = append(args, ast.NewIdent(recvName))
	}
	n := 0
	var plain []ast.Expr
	variadic := false
	for _, p := range fd.Type.Params.List {
		if len(p.Names) == 0 {
			n++
			p.Names = []*ast.Ident{ast.NewIdent(fmt.Sprintf("zzp%d", n))}
		}
		for i, nm := range p.Names {
			if nm.Name == "_" {
				n++
				p.Names[i] = ast.NewIdent(fmt.Sprintf("zzp%d", n))
			}
			if _, ok := p.Type.(*ast.Ellipsis); ok {
				variadic = true
			}
			args = append(args, ast.NewIdent(p.Names[i].Name))
			plain = append(plain, ast.NewIdent(p.Names[i].Name))
		}
	}
	origName := "zzOrig" + fd.Name.Name
	wrapper := &ast.FuncDecl{Recv: fd.Recv, Name: ast.NewIdent(fd.Name.Name), Type: fd.Type}
	fd.Name = ast.NewIdent(origName)
	seamCall := &ast.CallExpr{Fun: ast.NewIdent(seam), Args: args}
	var origFun ast.Expr = ast.NewIdent(origName)
	if recvName != "" {
		origFun = &ast.SelectorExpr{X: ast.NewIdent(recvName), Sel: ast.NewIdent(origName)}
	}
	origCall := &ast.CallExpr{Fun: origFun, Args: plain}
	if variadic {
		origCall.Ellipsis = 1
	}
	hasRes := fd.Type.Results != nil && len(fd.Type.Results.List) > 0
	var thenStmts []ast.Stmt
	var tail ast.Stmt
	if hasRes {
		thenStmts = []ast.Stmt{&ast.ReturnStmt{Results: []ast.Expr{seamCall}}}
		tail = &ast.ReturnStmt{Results: []ast.Expr{origCall}}
	} else {
		thenStmts = []ast.Stmt{&ast.ExprStmt{X: seamCall}, &ast.ReturnStmt{}}
		tail = &ast.ExprStmt{X: origCall}
	}
	wrapper.Body = &ast.BlockStmt{List: []ast.Stmt{
		&ast.IfStmt{Cond: &ast.BinaryExpr{X: ast.NewIdent(seam), Op: token.NEQ, Y: ast.NewIdent("nil")}, Body: &ast.BlockStmt{List: thenStmts}},
		tail,
	}}
	return wrapper
}

func exprText(fset *token.FileSet, e ast.Expr) string {
	var b bytes.Buffer
	_ = format.Node(&b, fset, e)
	return b.String()
}

// mentions reports whether the node (excluding nested blocks / func literals) selects one
// of the racy fields or calls one of the touch-calls; returns the name.
func (rw *rewriter) mentions(n ast.Node) string {
	if n == nil {
		return ""
	}
	found := ""
	ast.Inspect(n, func(x ast.Node) bool {
		if found != "" {
			return false
		}
		switch v := x.(type) {
		case *ast.BlockStmt, *ast.FuncLit:
			return false
		case *ast.SelectorExpr:
			for _, f := range rw.fc.Touch {
				if v.Sel.Name == f {
					found = f
					return false
				}
			}
			if id, ok := v.X.(*ast.Ident); ok {
				// qualified form "recv.Field": only that receiver's field (a field name that is
				// common, like Status, would otherwise match unrelated structs)
				for _, f := range rw.fc.Touch {
					if f == id.Name+"."+v.Sel.Name {
						found = f
						return false
					}
				}
			}
			if id, ok := v.X.(*ast.Ident); ok {
				full := id.Name + "." + v.Sel.Name
				for _, c := range rw.fc.TouchCall {
					if c == full {
						found = full
						return false
					}
				}
			}
		}
		return true
	})
	return found
}

func (rw *rewriter) stmtHeaderMention(s ast.Stmt) string {
	switch v := s.(type) {
	case *ast.IfStmt:
		if m := rw.mentions(v.Init); m != "" {
			return m
		}
		return rw.mentions(v.Cond)
	case *ast.ForStmt:
		for _, n := range []ast.Node{v.Init, v.Cond, v.Post} {
			if n == nil || isNilNode(n) {
				continue
			}
			if m := rw.mentions(n); m != "" {
				return m
			}
		}
		return ""
	case *ast.RangeStmt:
		return rw.mentions(v.X)
	case *ast.SwitchStmt:
		if v.Init != nil {
			if m := rw.mentions(v.Init); m != "" {
				return m
			}
		}
		if v.Tag != nil {
			return rw.mentions(v.Tag)
		}
		return ""
	case *ast.TypeSwitchStmt, *ast.SelectStmt, *ast.BlockStmt, *ast.LabeledStmt, *ast.CaseClause, *ast.CommClause:
		return ""
	case *ast.DeferStmt:
		return "" // runs later; the deferred call's body is instrumented where it is defined
	case *ast.ExprStmt:
		// our own inserted Touch
		if c, ok := v.X.(*ast.CallExpr); ok {
			if se, ok := c.Fun.(*ast.SelectorExpr); ok {
				if id, ok := se.X.(*ast.Ident); ok && id.Name == "zzvrt" {
					return ""
				}
			}
		}
		return rw.mentions(v)
	default:
		return rw.mentions(s)
	}
}

func isNilNode(n ast.Node) bool {
	switch v := n.(type) {
	case ast.Stmt:
		return v == nil
	case ast.Expr:
		return v == nil
	}
	return false
}

func inStmtList(c *astutil.Cursor) bool {
	if c.Index() < 0 {
		return false
	}
	switch c.Parent().(type) {
	case *ast.BlockStmt, *ast.CaseClause, *ast.CommClause:
		return true
	}
	return false
}

func (rw *rewriter) pre(c *astutil.Cursor) bool {
	n := c.Node()
	if cc, ok := n.(*ast.CommClause); ok && cc.Comm != nil {
		rw.commMark[cc.Comm] = true
	}
	// Touch insertion (pre-order so that the original statement is then processed normally).
	if st, ok := n.(ast.Stmt); ok && (len(rw.fc.Touch) > 0 || len(rw.fc.TouchCall) > 0) && inStmtList(c) {
		if _, isComm := c.Parent().(*ast.CommClause); !(isComm && c.Name() == "Comm") {
			if m := rw.stmtHeaderMention(st); m != "" {
				c.InsertBefore(&ast.ExprStmt{X: &ast.CallExpr{Fun: rw.vrt("Touch"), Args: []ast.Expr{&ast.BasicLit{Kind: token.STRING, Value: strconv.Quote(m)}}}})
			}
		}
	}
	return true
}

func (rw *rewriter) post(c *astutil.Cursor) bool {
	switch n := c.Node().(type) {
	case *ast.CallExpr:
		if len(rw.fc.Calls) > 0 {
			if se, ok := n.Fun.(*ast.SelectorExpr); ok {
				if repl, ok := rw.fc.Calls[exprText(rw.fset, se)]; ok {
					rw.callsHit[exprText(rw.fset, se)] = true
					switch {
					case strings.HasPrefix(repl, "@"):
						// method call routed through a function taking the receiver first
						n.Args = append([]ast.Expr{se.X}, n.Args...)
						n.Fun = ast.NewIdent(repl[1:])
					case strings.HasPrefix(repl, "vrt."):
						n.Fun = rw.vrt(repl[4:])
					default:
						n.Fun = ast.NewIdent(repl)
					}
				}
			}
		}
	case *ast.GoStmt:
		if rw.fc.Conc {
			lit := &ast.FuncLit{Type: &ast.FuncType{Params: &ast.FieldList{}}, Body: &ast.BlockStmt{List: []ast.Stmt{&ast.ExprStmt{X: n.Call}}}}
			// go func(){…}() without arguments: pass the literal itself
			if fl, ok := n.Call.Fun.(*ast.FuncLit); ok && len(n.Call.Args) == 0 && (fl.Type.Params == nil || len(fl.Type.Params.List) == 0) && (fl.Type.Results == nil || len(fl.Type.Results.List) == 0) {
				lit = fl
			}
			c.Replace(&ast.ExprStmt{X: &ast.CallExpr{Fun: rw.vrt("Go"), Args: []ast.Expr{lit}}})
		}
	case *ast.SendStmt:
		if rw.fc.Conc {
			if cc, ok := c.Parent().(*ast.CommClause); ok && cc.Comm == ast.Stmt(n) {
				return true
			}
			c.Replace(&ast.ExprStmt{X: &ast.CallExpr{Fun: rw.vrt("Send"), Args: []ast.Expr{n.Chan, n.Value}}})
		}
	case *ast.UnaryExpr:
		if rw.fc.Conc && n.Op == token.ARROW {
			// skip receive that is the comm of a select clause (handled by the select rewrite)
			if rw.isCommRecv(c) {
				return true
			}
			name := "Recv"
			if as, ok := c.Parent().(*ast.AssignStmt); ok && len(as.Lhs) == 2 && len(as.Rhs) == 1 {
				name = "Recv2"
			}
			if vs, ok := c.Parent().(*ast.ValueSpec); ok && len(vs.Names) == 2 && len(vs.Values) == 1 {
				name = "Recv2"
			}
			c.Replace(&ast.CallExpr{Fun: rw.vrt(name), Args: []ast.Expr{n.X}})
		}
	case *ast.SelectStmt:
		if rw.fc.Conc {
			c.Replace(rw.rewriteSelect(n))
		}
	case *ast.RangeStmt:
		if len(rw.fc.MapRanges) > 0 {
			txt := exprText(rw.fset, n.X)
			for _, m := range rw.fc.MapRanges {
				if m == txt {
					rw.rewriteMapRange(n)
					break
				}
			}
		}
	}
	return true
}

// isCommRecv: the unary receive is (part of) the Comm statement of a select clause.
func (rw *rewriter) isCommRecv(c *astutil.Cursor) bool {
	switch p := c.Parent().(type) {
	case *ast.ExprStmt:
		return rw.commMark[ast.Stmt(p)]
	case *ast.AssignStmt:
		return rw.commMark[ast.Stmt(p)]
	}
	return false
}

func (rw *rewriter) rewriteSelect(s *ast.SelectStmt) ast.Stmt {
	hasDefault := false
	var cases []ast.Expr
	var clauses []*ast.CommClause
	var deflt *ast.CommClause
	for _, st := range s.Body.List {
		cc := st.(*ast.CommClause)
		if cc.Comm == nil {
			hasDefault = true
			deflt = cc
			continue
		}
		clauses = append(clauses, cc)
		switch cm := cc.Comm.(type) {
		case *ast.SendStmt:
			cases = append(cases, &ast.CallExpr{Fun: rw.vrt("SendCase"), Args: []ast.Expr{cm.Chan}})
		case *ast.ExprStmt:
			cases = append(cases, &ast.CallExpr{Fun: rw.vrt("RecvCase"), Args: []ast.Expr{recvChan(cm.X)}})
		case *ast.AssignStmt:
			cases = append(cases, &ast.CallExpr{Fun: rw.vrt("RecvCase"), Args: []ast.Expr{recvChan(cm.Rhs[0])}})
		}
	}
	hd := "false"
	if hasDefault {
		hd = "true"
	}
	args := append([]ast.Expr{ast.NewIdent(hd)}, cases...)
	sw := &ast.SwitchStmt{Tag: &ast.CallExpr{Fun: rw.vrt("Select"), Args: args}, Body: &ast.BlockStmt{}}
	for i, cc := range clauses {
		inner := &ast.SelectStmt{Body: &ast.BlockStmt{List: []ast.Stmt{cc}}}
		sw.Body.List = append(sw.Body.List, &ast.CaseClause{
			List: []ast.Expr{&ast.BasicLit{Kind: token.INT, Value: strconv.Itoa(i)}},
			Body: []ast.Stmt{inner},
		})
	}
	if deflt != nil {
		sw.Body.List = append(sw.Body.List, &ast.CaseClause{List: nil, Body: deflt.Body})
	} else {
		// keeps the statement terminating when every clause returns (a select is, a switch without default is not)
		sw.Body.List = append(sw.Body.List, &ast.CaseClause{List: nil, Body: []ast.Stmt{&ast.ExprStmt{X: &ast.CallExpr{Fun: ast.NewIdent("panic"), Args: []ast.Expr{&ast.BasicLit{Kind: token.STRING, Value: strconv.Quote("vrt: select chose no clause")}}}}}})
	}
	return sw
}

func recvChan(e ast.Expr) ast.Expr {
	for {
		switch x := e.(type) {
		case *ast.ParenExpr:
			e = x.X
			continue
		case *ast.UnaryExpr:
			if x.Op == token.ARROW {
				return x.X
			}
		}
		return e
	}
}

func (rw *rewriter) rewriteMapRange(n *ast.RangeStmt) {
	rw.tmp++
	keyName := fmt.Sprintf("zzk%d", rw.tmp)
	var pre []ast.Stmt
	tok := n.Tok
	if tok == token.ILLEGAL {
		tok = token.DEFINE
	}
	userKey, userVal := n.Key, n.Value
	if id, ok := userKey.(*ast.Ident); ok && id.Name == "_" {
		userKey = nil
	}
	if id, ok := userVal.(*ast.Ident); ok && id.Name == "_" {
		userVal = nil
	}
	if userKey != nil {
		pre = append(pre, &ast.AssignStmt{Lhs: []ast.Expr{userKey}, Tok: tok, Rhs: []ast.Expr{ast.NewIdent(keyName)}})
		if tok == token.DEFINE {
			pre = append(pre, &ast.AssignStmt{Lhs: []ast.Expr{ast.NewIdent("_")}, Tok: token.ASSIGN, Rhs: []ast.Expr{userKey}})
		}
	}
	if userVal != nil {
		pre = append(pre, &ast.AssignStmt{Lhs: []ast.Expr{userVal}, Tok: tok, Rhs: []ast.Expr{&ast.IndexExpr{X: n.X, Index: ast.NewIdent(keyName)}}})
		if tok == token.DEFINE {
			pre = append(pre, &ast.AssignStmt{Lhs: []ast.Expr{ast.NewIdent("_")}, Tok: token.ASSIGN, Rhs: []ast.Expr{userVal}})
		}
	}
	n.Key = ast.NewIdent("_")
	n.Value = ast.NewIdent(keyName)
	n.Tok = token.DEFINE
	n.X = &ast.CallExpr{Fun: rw.vrt("Keys"), Args: []ast.Expr{n.X}}
	n.Body.List = append(pre, n.Body.List...)
}
