module vinstr

go 1.23

require golang.org/x/tools v0.29.0
