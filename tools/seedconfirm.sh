#!/bin/bash
# usage: tools/seedconfirm.sh <worktree> <patch.diff> <demo file> <pkg dir rel> <go test -run regexp>
# Confirms in a scratch worktree: demo fails with the change, passes without; full suite passes with the change.
wt=$1; patch=$2; demo=$3; pkg=$4; run=$5
export GOFLAGS=-mod=mod GOPROXY=off
cd $wt || exit 3
git checkout -q -- . 
cp $demo $pkg/zz_seed_demo_test.go
echo "== demo WITHOUT change (expect pass)"; go test -vet=off -count=1 -run "$run" ./$pkg 2>&1 | tail -3
git apply $patch || { echo "patch does not apply"; rm -f $pkg/zz_seed_demo_test.go; exit 3; }
echo "== demo WITH change (expect FAIL)"; go test -vet=off -count=1 -run "$run" ./$pkg 2>&1 | tail -4
rm -f $pkg/zz_seed_demo_test.go
echo "== full suite WITH change (expect pass)"; go test -vet=off -count=1 ./... 2>&1 | grep -v "^ok\|no test files" | tail -5; echo "(suite done)"
git checkout -q -- .
