#!/usr/bin/env python3
"""Regenerates MANIFEST.json from tools/registry.py (claimed checks) and tools/not_applicable.json."""
import json, os, sys
VERIF = os.path.dirname(os.path.dirname(os.path.abspath(__file__)))
sys.path.insert(0, os.path.join(VERIF, "tools"))
from registry import CHECKS
props = [json.loads(l) for l in open(os.path.join(VERIF, "properties.jsonl"))]
ids = [p["id"] for p in props]
checks = []
for cid in ids:
    if cid not in CHECKS:
        continue
    c = CHECKS[cid]
    checks.append({
        "property_id": cid,
        "quick_cmd": "./check %s quick" % cid,
        "thorough_cmd": "./check %s thorough" % cid,
        "evidence_file": "/verif/evidence/%s.json" % cid,
        "replay_cmd_template": "./check %s --replay {path}" % cid,
        "engine": c.get("engine", "E2"),
        "level_claimed": {"category": c.get("level", "model_checking"), "text": c["level_text"], "design_ref": c.get("design_ref", "DESIGN.md section 5, " + cid)},
        "level_note": c["level_note"],
        "technique": c["technique"],
    })
na_path = os.path.join(VERIF, "tools", "not_applicable.json")
na = json.load(open(na_path)) if os.path.exists(na_path) else {}
not_applicable = [{"property_id": i, "reason": na.get(i, "no check built yet in this session; design in DESIGN.md section 5")} for i in ids if i not in CHECKS]
m = {
    "version": 1,
    "setup_cmd": "./check setup",
    "hooks": {
        "guard": "overlay (go test -overlay): instrumented copies, seams and harness files are supplied at build time from /verif; /repo carries no hook commits",
        "enable": "go test -c -overlay /verif/.work/<id>/overlay.json -vet=off ./<pkg>  (done by ./check)",
        "baseline_off_cmd": "cd /repo && GOFLAGS=-mod=mod GOPROXY=off go test -vet=off -count=1 -timeout 25m ./...",
        "source_commits": [],
        "add_only": True,
    },
    "engines": [
        {"name": "E2", "path": "/verif/lib/zzverif/vres, /verif/harness", "serves_properties": [c for c in ids if c in CHECKS and "E2" in CHECKS[c].get("engine", "E2")],
         "kind_free_text": "bounded exhaustive enumeration (BFS over canonical states / full product enumeration of operation sequences, inputs, fault patterns) executed on the real code, compared step by step with a Go reference model"},
        {"name": "E1", "path": "/verif/lib/zzverif/vrt, /verif/tools/vinstr", "serves_properties": [c for c in ids if c in CHECKS and "E1" in CHECKS[c].get("engine", "")],
         "kind_free_text": "hand-written controlled scheduler (one goroutine runs at a time, scheduling points at lock/channel/select/timer operations and listed racy fields, virtual clock) with deviation-bounded DFS over all interleavings of a small closed harness around the instrumented real sources"},
    ],
    "checks": checks,
    "not_applicable": not_applicable,
    "notes": "All checks are bounded exhaustive explorations of the real implementation built from /repo's current working tree through a go build overlay. Exit 0 held / only listed known findings, 1 violation, 2 could not build or run. known_findings.json lists recorded findings and fixed defects.",
}
json.dump(m, open(os.path.join(VERIF, "MANIFEST.json"), "w"), indent=1)
print("MANIFEST.json: %d checks, %d not_applicable" % (len(checks), len(not_applicable)))
