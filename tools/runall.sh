#!/bin/sh
# tools/runall.sh <tier> [ids...] — run checks one after the other, print wall time and exit code.
tier=${1:-quick}; shift
cd "$(dirname "$0")/.."
./check setup >/dev/null 2>&1 || { echo "setup failed"; exit 2; }
ids="$*"
[ -n "$ids" ] || ids=$(./check list | awk '{print $1}')
rc=0
W=${VERIF_WORKROOT:-.work}; mkdir -p "$W"
for id in $ids; do
  s=$(date +%s)
  ./check "$id" "$tier" > "$W/runall-$id-$tier.log" 2>&1
  c=$?
  e=$(date +%s)
  echo "== $id $tier exit=$c wall=$((e-s))s"
  grep -E "^(VIOLATION|KNOWN-FINDING|BROKEN|part )" "$W/runall-$id-$tier.log" | cut -c1-220
  [ $c -eq 0 ] || rc=$c
done
exit $rc
